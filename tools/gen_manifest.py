#!/usr/bin/env python3
"""Generate /verif/MANIFEST.json from the per-property table below."""
import json, subprocess

LEVEL = {
 "C01": ("shadow-multiset history monitor: generated insert/delete/union/clear histories (incl. failing ones, hostile hashers/RNGs, kick budgets), all live keys queried after every operation", "DESIGN §4 C01"),
 "C02": ("exact-count reference model in lock-step over add/add_n/merge/clear histories on five counter types; return values compared with query_point", "DESIGN §4 C02"),
 "C03": ("statistical monitor over independent hash streams: RMS / mean / tail of the relative error at ~240 cardinalities per precision, two-stage confirmation; no-panic sweep over arbitrary register vectors", "DESIGN §4 C03"),
 "C04": ("rank-error oracle against the exact empirical CDF of all inserted values at checkpoints, plus centroid-count bound, over scale functions x delta x backlog x 13 data families", "DESIGN §4 C04"),
 "C05": ("statistical monitor of per-position / per-region inclusion frequencies over many RNG seeds against k/n (exact cells) or the documented-algorithm reference (gap cells), two-stage confirmation", "DESIGN §4 C05"),
 "C06": ("differential monitor: merged structure vs sequentially built reference, other operand before/after, algebraic laws on stream triples", "DESIGN §4 C06"),
 "C07": ("usability sweep over the (n,p) plane (release + debug-assertion builds) and statistical monitor of false-positive frequencies over hasher seeds with the upper-bounded-rate rule; Bloom len() estimator check", "DESIGN §4 C07"),
 "C08": ("statistical monitor of the (seed, element) failure fraction per (epsilon, delta, stream) cell incl. adversarial heavy-hitter streams, two-stage confirmation, known-finding envelopes", "DESIGN §4 C08"),
 "C09": ("exact-count reference model at every stream prefix: no-miss / no-intruder for a threshold grid, add() return value vs tracked set, harmonic bound on the table", "DESIGN §4 C09"),
 "C10": ("exact counts + shadow CountMinSketch at every prefix: result size/membership and the k-most-frequent-up-to-E rule; release and debug-assertion builds for the no-panic clause", "DESIGN §4 C10"),
 "C11": ("counting global allocator (thread-local live bytes) bracketing construction / streams of growing length / clear-refill cycles / failed operations; valgrind massif cross-check in the thorough tier", "DESIGN §4 C11"),
 "C12": ("fault-sequence monitor: observables recorded before every insert/union and compared after every Err (kick budgets force failures after any number of evictions; unions failing at first/middle/last fingerprint), continuation vs pre-failure clone / model", "DESIGN §4 C12"),
 "C13": ("set-of-classes reference model in lock-step after every insert with a full-universe sweep; exhaustive DFS for the four smallest tables, all quotient sequences for q=3", "DESIGN §4 C13"),
 "C14": ("multiset-of-classes reference model in lock-step with full-universe sweeps and deletable-count probes on clones; exhaustive bounded histories on the 2x2x2 table", "DESIGN §4 C14"),
 "C15": ("dense-grid monitor of quantile/cdf monotonicity, range, end points, mutual consistency against the digest's own cells (hook accessor) and read repeatability", "DESIGN §4 C15"),
 "C16": ("double-double reference accumulation compared after operations of generated insert/insert_weighted/read/clear histories", "DESIGN §4 C16"),
 "C17": ("independent bit-loop reference for registers, permutation/duplication invariance, add vs add_hashed, reconstruction equality over boundary and random hashes", "DESIGN §4 C17"),
 "C18": ("direct validity oracle on reservoir() after every add under fast, hostile and scripted RNGs; release and debug-assertion builds", "DESIGN §4 C18"),
 "C19": ("lock-step differential execution: cleared vs fresh structure (RNG rewound) over identical continuations, clone/original isolation, for all nine structures", "DESIGN §4 C19"),
 "C20": ("round-trip differential continuation and a corrupted-document sweep (b x length grid, field corruptions, random structural mutations) with invariant + liveness checks on whatever deserialises", "DESIGN §4 C20"),
}

def hook_commits():
    out = subprocess.run(["git", "-C", "/repo", "log", "--format=%h %s"], capture_output=True, text=True).stdout
    return [l.split()[0] for l in out.splitlines() if l.split(" ", 1)[1].startswith("verif_hooks")]

def main():
    checks = []
    for pid, (tech, ref) in sorted(LEVEL.items()):
        checks.append({
            "property_id": pid,
            "quick_cmd": f"./check {pid} quick",
            "thorough_cmd": f"./check {pid} thorough",
            "evidence_file": f"/verif/evidence/{pid}.json",
            "replay_cmd_template": "./check replay {path}",
            "engine": "pdsmon",
            "level_claimed": {
                "category": "exploration",
                "text": "Runtime monitoring: the real crate, built from /repo's working tree with hooks on, is driven by generated hostile workloads while an oracle observes every execution. Held means: no counterexample on the executions listed in the evidence file, nothing more.",
                "design_ref": ref,
            },
            "level_note": "Trusted: the harness hashers/RNGs/reference models (unit-tested, small), rustc, and that the hook counters are placed on the paths they name. Reach is the workload; nothing outside the generated configurations/histories is covered.",
            "technique": "runtime monitoring: " + tech + "; every run is additionally watched by a CPU-time liveness monitor (a call into the crate that does not return is reported as <ID>/call-does-not-return) and a collector for panics escaping nested worker loops; violations replay by work item or cell (./check replay)",
        })
    m = {
        "version": 1,
        "setup_cmd": "./check build",
        "hooks": {
            "guard": "verif_hooks",
            "enable": "cargo feature `verif_hooks` of pdatastructs, enabled by /verif/harness/Cargo.toml (path dependency on /repo)",
            "baseline_off_cmd": "cd /repo && cargo test --workspace --no-fail-fast --offline",
            "source_commits": hook_commits(),
            "add_only": True,
        },
        "engines": [{
            "name": "pdsmon",
            "path": "/verif/harness",
            "serves_properties": sorted(LEVEL.keys()),
            "kind_free_text": "Rust monitor binary (profiles monrel = release + overflow checks, mondbg = debug assertions on, monfast = plain release where overflow wraps; the latter two as reduced sub-runs): workload generators, reference models, history/statistical oracles, counting allocator; valgrind massif cross-check for C11",
        }],
        "checks": checks,
        "not_applicable": [],
        "notes": "exit codes: 0 held on everything observed, 1 violation (VIOLATION line), 2 inconclusive (never on the unchanged tree), 3 build/usage error. Known findings: /verif/known_findings.json.",
    }
    json.dump(m, open("/verif/MANIFEST.json", "w"), indent=1)
    print("wrote MANIFEST.json with", len(checks), "checks")

main()
