#!/usr/bin/env python3
"""Generate /verif/MANIFEST.json from the per-property table below."""
import json, subprocess

LEVEL = {
 "C01": ("shadow-multiset monitor over generated insert/delete/union/clear histories with a sweep of all live keys after every operation", "DESIGN §4 C01"),
 "C13": ("set-of-classes reference model run in lock-step after every insert with a full-universe sweep; exhaustive for the four smallest tables", "DESIGN §4 C13"),
 "C14": ("multiset-of-classes reference model in lock-step with full-universe sweeps and deletable-count probes on clones; exhaustive bounded histories on the 2x2x2 table", "DESIGN §4 C14"),
}

def hook_commits():
    out = subprocess.run(["git", "-C", "/repo", "log", "--format=%h %s"], capture_output=True, text=True).stdout
    return [l.split()[0] for l in out.splitlines() if l.split(" ", 1)[1].startswith("verif_hooks")]

def main():
    checks = []
    for pid, (tech, ref) in sorted(LEVEL.items()):
        checks.append({
            "property_id": pid,
            "quick_cmd": f"./check {pid} quick",
            "thorough_cmd": f"./check {pid} thorough",
            "evidence_file": f"/verif/evidence/{pid}.json",
            "replay_cmd_template": "./check replay {path}",
            "engine": "pdsmon",
            "level_claimed": {
                "category": "exploration",
                "text": "Runtime monitoring: the real crate, built from /repo's working tree with hooks on, is driven by generated hostile workloads while an oracle observes every execution. Held means: no counterexample on the executions listed in the evidence file, nothing more.",
                "design_ref": ref,
            },
            "level_note": "Trusted: the harness hashers/RNGs/reference models (unit-tested, small), rustc, and that the hook counters are placed on the paths they name. Reach is the workload; nothing outside the generated configurations/histories is covered.",
            "technique": "runtime monitoring: " + tech,
        })
    m = {
        "version": 1,
        "setup_cmd": "./check build",
        "hooks": {
            "guard": "verif_hooks",
            "enable": "cargo feature `verif_hooks` of pdatastructs, enabled by /verif/harness/Cargo.toml (path dependency on /repo)",
            "baseline_off_cmd": "cd /repo && cargo test --workspace --no-fail-fast --offline",
            "source_commits": hook_commits(),
            "add_only": True,
        },
        "engines": [{
            "name": "pdsmon",
            "path": "/verif/harness",
            "serves_properties": sorted(LEVEL.keys()),
            "kind_free_text": "Rust monitor binary (profiles monrel = release + overflow checks, mondbg = debug assertions on): workload generators, reference models, history/statistical oracles, counting allocator; valgrind massif cross-check for C11",
        }],
        "checks": checks,
        "not_applicable": [],
        "notes": "exit codes: 0 held on everything observed, 1 violation (VIOLATION line), 2 inconclusive (never on the unchanged tree), 3 build/usage error. Known findings: /verif/known_findings.json.",
    }
    json.dump(m, open("/verif/MANIFEST.json", "w"), indent=1)
    print("wrote MANIFEST.json with", len(checks), "checks")

main()
