#!/bin/bash
# tools/sweep_props.sh <tier> "<props>" <seeds...>
tier="$1"; props="$2"; shift 2
cd "$(dirname "$0")/.." || exit 3
if [ -n "${VP_RUN_REPO:-}" ]; then
    sed -i "s#path = \"/repo\"#path = \"$VP_RUN_REPO\"#" harness/Cargo.toml
    [ -f "$VP_RUN_REPO/Cargo.lock" ] || cp /repo/Cargo.lock "$VP_RUN_REPO/Cargo.lock" 2>/dev/null
fi
for s in "$@"; do
    for id in $props; do
        start=$(date +%s)
        out=$(VERIF_SEED=$s ./check "$id" "$tier" 2>&1); rc=$?
        echo "seed=$s $id exit=$rc secs=$(( $(date +%s) - start )) $(echo "$out" | tail -1 | cut -c1-160)"
        if [ $rc -ne 0 ]; then echo "$out" | grep -E "VIOLATION|signature|what:|INCONCLUSIVE" | head -12 | cut -c1-400; fi
        if [ "$id" = "C04" ]; then jq -c '.coverage.worst_observed' evidence/C04.json; fi
    done
done
