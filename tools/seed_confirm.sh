#!/bin/bash
# tools/seed_confirm.sh <src_dir with patch.diff + demo.rs> <PROP> <name>
# 1. in a scratch worktree (outside /repo and /verif): demo passes on the clean tree, patch applies,
#    the 213+16 baseline tests pass with the patch, demo fails with the patch
# 2. applies the patch to /repo, runs the given property's quick check, undoes the patch
# Prints a one-line summary; stores nothing (the caller copies into /verif/seeded/<name>/).
set -u
SRC="$1"; PROP="$2"; NAME="$3"; shift 3
EXTRA_PROPS="$*"
export CARGO_NET_OFFLINE=true
WT=/tmp/confirm/wt
mkdir -p /tmp/confirm
if [ ! -d "$WT" ]; then
    git -C /repo worktree add --detach "$WT" HEAD >/dev/null 2>&1 || { echo "cannot create worktree"; exit 3; }
    cp /repo/Cargo.lock "$WT/Cargo.lock"
fi
cd "$WT" || exit 3
git checkout -q --detach "$(git -C /repo rev-parse HEAD)" 2>/dev/null
git checkout -q -- . ; rm -rf tests; mkdir -p tests
cp "$SRC/demo.rs" tests/demo_seed.rs
clean_demo=$(cargo test --offline --release --test demo_seed 2>&1 | grep -E "^test result" | head -1)
if ! git apply --check "$SRC/patch.diff" 2>/dev/null; then echo "RESULT name=$NAME patch-does-not-apply"; git checkout -q -- .; rm -rf tests; exit 4; fi
git apply "$SRC/patch.diff"
base=$(cargo test --workspace --no-fail-fast --offline 2>&1 | grep -E "^test result" | tr '\n' ' ')
hooks_build=$(cargo build --offline --features verif_hooks 2>&1 | grep -cE "^error")
mut_demo=$(cargo test --offline --release --test demo_seed 2>&1 | grep -E "^test result" | head -1)
git checkout -q -- . ; rm -rf tests
echo "CONFIRM name=$NAME clean_demo=[$clean_demo] baseline_with_patch=[$base] hooks_build_errors=$hooks_build mutated_demo=[$mut_demo]"
# framework
cd /verif || exit 3
if [ -n "$(git -C /repo status --porcelain --untracked-files=no)" ]; then echo "/repo is dirty, refusing"; exit 5; fi
git -C /repo apply "$SRC/patch.diff" || { echo "apply to /repo failed"; exit 4; }
for P in $PROP $EXTRA_PROPS; do
    out=$(VERIF_SEED=${VERIF_SEED:-1} ./check "$P" quick 2>&1)
    rc=$?
    sigs=$(echo "$out" | grep "signature:" | sed 's/^ *signature: //' | sort -u | head -5 | tr '\n' ';')
    echo "CHECK name=$NAME prop=$P exit=$rc $(echo "$out" | tail -1 | cut -c1-120) sigs=[$sigs]"
done
git -C /repo checkout -- .
rm -f /verif/replays/*.json
