#!/bin/bash
# tools/selftest.sh [quick|thorough] — apply every seeded change under /verif/seeded/<id>/ to /repo in turn, run
# the check of the property it breaks (plus any listed in meta.json "also_run"), expect exit 1, undo the change.
# Writes /verif/SELFTEST.md. /repo must be clean; it is restored after every run.
tier="${1:-quick}"
cd /verif || exit 3
[ -z "$(git -C /repo status --porcelain --untracked-files=no)" ] || { echo "/repo has uncommitted changes"; exit 3; }
out=/verif/SELFTEST.md
{
echo "# SELFTEST — seeded changes vs. the checks ($tier tier, $(date -u +%F))"
echo
echo "Each row: a change to /repo written by an independent sub-agent (it saw only the property text), confirmed by me"
echo "to compile, to pass the 213 pinned tests + 16 doctests, and to fail its own demonstration; applied with"
echo "\`git -C /repo apply\`, checked with \`./check <property> $tier\`, undone with \`git -C /repo checkout -- .\`."
echo
echo "| seeded change | property | exit | signatures reported (first 3) | what it needs to manifest |"
echo "|---|---|---|---|---|"
} > $out
fail=0
for d in /verif/seeded/*/; do
    id=$(basename "$d")
    if [ -n "${SELFTEST_ONLY:-}" ] && ! echo " $SELFTEST_ONLY " | grep -q " $id "; then continue; fi
    prop=$(jq -r .property "$d/meta.json")
    if [ "$(jq -r '.withdrawn // empty' "$d/meta.json")" != "" ]; then echo "| $id | $prop | withdrawn | | $(jq -r .withdrawn "$d/meta.json" | cut -c1-200) |" >> $out; continue; fi
    need=$(jq -r .needs_to_manifest "$d/meta.json" | cut -c1-160)
    git -C /repo apply "$d/patch.diff" || { echo "| $id | $prop | patch does not apply | | |" >> $out; fail=1; continue; }
    # meta.json "check_with": properties whose checks are run (default: the property the change was
    # written against); the change counts as reported if one of them exits 1
    props=$(jq -r '(.check_with // [.property]) | join(" ")' "$d/meta.json")
    rc=0; sigs=""; ran=""
    for p in $props; do
        o=$(VERIF_SEED=${VERIF_SEED:-1} ./check "$p" "$tier" 2>&1); r=$?
        ran="$ran $p=$r"
        if [ "$r" -eq 1 ]; then rc=1; sigs=$(echo "$o" | grep "signature:" | sed 's/^ *signature: //' | sort -u | head -3 | tr '\n' ' ' | sed 's/|/\\|/g'); break; fi
        [ "$r" -gt "$rc" ] && rc=$r
    done
    git -C /repo checkout -- .
    prop="$prop ($(echo $ran))"
    echo "| $id | $prop | $rc | $sigs | $need |" >> $out
    echo "$id $prop exit=$rc"
    [ "$rc" -eq 1 ] || fail=1
done
rm -f /verif/replays/*.json
echo >> $out
if [ $fail -eq 0 ]; then echo "All seeded changes were reported (exit 1)." >> $out; else echo "SOME SEEDED CHANGES WERE NOT REPORTED." >> $out; fi
exit $fail
