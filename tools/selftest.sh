#!/bin/bash
# tools/selftest.sh [quick|thorough] — apply every seeded change under /verif/seeded/<id>/ to /repo in turn, run
# the check of the property it breaks (plus any listed in meta.json "also_run"), expect exit 1, undo the change.
# Writes /verif/SELFTEST.md. /repo must be clean; it is restored after every run.
tier="${1:-quick}"
cd /verif || exit 3
[ -z "$(git -C /repo status --porcelain --untracked-files=no)" ] || { echo "/repo has uncommitted changes"; exit 3; }
out=/verif/SELFTEST.md
{
echo "# SELFTEST — seeded changes vs. the checks ($tier tier, $(date -u +%F))"
echo
echo "Each row: a change to /repo written by an independent sub-agent (it saw only the property text), confirmed by me"
echo "to compile, to pass the 213 pinned tests + 16 doctests, and to fail its own demonstration; applied with"
echo "\`git -C /repo apply\`, checked with \`./check <property> $tier\`, undone with \`git -C /repo checkout -- .\`."
echo
echo "| seeded change | property | exit | signatures reported (first 3) | what it needs to manifest |"
echo "|---|---|---|---|---|"
} > $out
fail=0
for d in /verif/seeded/*/; do
    id=$(basename "$d")
    prop=$(jq -r .property "$d/meta.json")
    need=$(jq -r .needs_to_manifest "$d/meta.json" | cut -c1-160)
    git -C /repo apply "$d/patch.diff" || { echo "| $id | $prop | patch does not apply | | |" >> $out; fail=1; continue; }
    o=$(VERIF_SEED=${VERIF_SEED:-1} ./check "$prop" "$tier" 2>&1); rc=$?
    git -C /repo checkout -- .
    sigs=$(echo "$o" | grep "signature:" | sed 's/^ *signature: //' | sort -u | head -3 | tr '\n' ' ' | sed 's/|/\\|/g')
    echo "| $id | $prop | $rc | $sigs | $need |" >> $out
    echo "$id $prop exit=$rc"
    [ "$rc" -eq 1 ] || fail=1
done
rm -f /verif/replays/*.json
echo >> $out
if [ $fail -eq 0 ]; then echo "All seeded changes were reported (exit 1)." >> $out; else echo "SOME SEEDED CHANGES WERE NOT REPORTED." >> $out; fi
exit $fail
