#!/bin/bash
# tools/neutral_run.sh <mutdir> — behaviour-changing but property-preserving changes (<mutdir>/<part>/out/<x>/patch.diff):
# confirm that the crate's own tests pass with the change and that its demo distinguishes the trees, then run every
# quick check on /repo with the change applied. Any VIOLATION is a false alarm to investigate (or an unsound change).
MUT="${1:-/verif/neutral}"
RES=/tmp/neutral_results.txt
: > $RES
export CARGO_NET_OFFLINE=true
WT=/tmp/confirm/wt
mkdir -p /tmp/confirm
[ -d "$WT" ] || { git -C /repo worktree add --detach "$WT" HEAD >/dev/null 2>&1; cp /repo/Cargo.lock "$WT/Cargo.lock"; }
for d in $MUT/*/; do
    [ -f "$d/patch.diff" ] || continue
    name="$(basename "$d")"
    cd "$WT"; git checkout -q -- .; rm -rf tests; mkdir -p tests
    git apply --check "$d/patch.diff" 2>/dev/null || { echo "NEUTRAL $name patch-does-not-apply" >> $RES; continue; }
    cp "$d/demo.rs" tests/demo_seed.rs 2>/dev/null
    clean_demo=$(cargo test --offline --release --test demo_seed 2>&1 | grep -E "^test result" | head -1 | cut -c1-40)
    git apply "$d/patch.diff"
    base=$(cargo test --workspace --no-fail-fast --offline 2>&1 | grep -E "^test result" | cut -c1-40 | tr '\n' ' ')
    mut_demo=$(cargo test --offline --release --test demo_seed 2>&1 | grep -E "^test result" | head -1 | cut -c1-40)
    git checkout -q -- .; rm -rf tests
    cd /verif
    [ -z "$(git -C /repo status --porcelain --untracked-files=no)" ] || { echo "/repo dirty" >> $RES; exit 5; }
    git -C /repo apply "$d/patch.diff"
    out=$(./check all quick 2>&1)
    git -C /repo checkout -- .
    bad=$(echo "$out" | grep -vE "^HELD|^KNOWN-FINDING|^WARNING" | grep -E "VIOLATED|INCONCLUSIVE|BUILD|signature" | cut -c1-200 | tr '\n' ';')
    echo "NEUTRAL $name clean_demo=[$clean_demo] baseline=[$base] changed_demo=[$mut_demo] alarms=[$bad]" >> $RES
done
rm -f /verif/replays/*.json
echo "ALLDONE $(date)" >> $RES
