#!/bin/bash
# tools/seed_confirm_all.sh [mutdir] [suffix] — confirm every agent mutation under <mutdir>/<ID>/out/<x>/
MUT="${1:-/tmp/mut}"; SUF="${2:-}"
mkdir -p /tmp/confirm
RES=/tmp/confirm/results$SUF.txt
touch $RES
for d in $MUT/C*/out/*/; do
    [ -f "$d/patch.diff" ] && [ -f "$d/demo.rs" ] && [ -f "$d/NOTES.md" ] || continue
    prop=$(echo "$d" | sed -E 's#.*/(C[0-9]+)/out/.*#\1#')
    x=$(basename "$d")
    name="${prop}-${SUF}${x}"
    grep -q "name=$name " $RES && continue
    extra=""
    case "$name" in C14-2a|C14-2b) extra="C12";; C10-2b) extra="C19";; C10-3b) extra="C09";; C15-3b) extra="C16";; C17-3b) extra="C20";; C05-3b) extra="C18 C19";; C05-3a) extra="C19";; C14-3b|C14-3c) extra="C12";; C19-3a) extra="C14";; C07-4b) extra="C06 C19";; C16-4b) extra="C19";; C01-4a) extra="C06 C14";; C06-4b) extra="C14 C01";; C11-4b) extra="C04 C15";; C19-4a) extra="C07";; C18-4b) extra="C19 C05";; C05-4a) extra="C19 C18";; C05-4b) extra="C18";; C02-4a) extra="C06";; C20-4a) extra="C17";; C06-4a) extra="C01 C13";; C02-5b|C17-5a|C18-5b|C13-5b) extra="C19";; C14-5b) extra="C12";; C11-5b) extra="C04";; C06-5a) extra="C01";; C01-5a) extra="C06";; C01-5b) extra="C19 C13";; C16-5a|C16-5b) extra="C15";; C13-6b|C09-6a|C10-6a|C05-6b|C03-6b) extra="C19";; C18-7b|C07-7b|C04-7b) extra="C19";; C19-7b) extra="C05";; C01-7a) extra="C14 C06";; C01-7b) extra="C12 C13";; esac
    /verif/tools/seed_confirm.sh "$d" "$prop" "$name" $extra >> $RES 2>&1
done
echo "ALLDONE $(date)" >> $RES
