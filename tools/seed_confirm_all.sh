#!/bin/bash
# confirm every finished agent mutation under /tmp/mut/<ID>/out/<x>/ that has not been confirmed yet
mkdir -p /tmp/confirm
RES=/tmp/confirm/results.txt
touch $RES
for d in /tmp/mut/C*/out/*/; do
    [ -f "$d/patch.diff" ] && [ -f "$d/demo.rs" ] && [ -f "$d/NOTES.md" ] || continue
    prop=$(echo "$d" | sed -E 's#/tmp/mut/(C[0-9]+)/out/.*#\1#')
    x=$(basename "$d")
    name="${prop}-${x}"
    grep -q "name=$name " $RES && continue
    /verif/tools/seed_confirm.sh "$d" "$prop" "$name" >> $RES 2>&1
done
echo "ALLDONE $(date)" >> $RES
