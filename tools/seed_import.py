#!/usr/bin/env python3
"""tools/seed_import.py <mutdir> <suffix> <results.txt> <round> — copy confirmed agent changes into /verif/seeded/<ID>-<suffix><x>/
with a meta.json built from the CONFIRM / CHECK lines of tools/seed_confirm_all.sh."""
import sys, os, re, json, shutil, glob
mut, suf, res, rnd = sys.argv[1], sys.argv[2], sys.argv[3], int(sys.argv[4])
lines = open(res).read().splitlines()
for d in sorted(glob.glob(f"{mut}/C*/out/*/")):
    prop = re.search(r"/(C\d+)/out/", d).group(1)
    x = os.path.basename(d.rstrip("/"))
    name = f"{prop}-{suf}{x}"
    conf = [l for l in lines if l.startswith(f"CONFIRM name={name} ")]
    if not conf:
        print("no CONFIRM line for", name); continue
    c = conf[-1]
    g = lambda k: re.search(k + r"=\[(.*?)\]", c).group(1)
    ok = g("clean_demo").startswith("test result: ok") and "FAILED" in g("mutated_demo") and "213 passed; 0 failed" in g("baseline_with_patch") and "16 passed; 0 failed" in g("baseline_with_patch")
    if not ok:
        print("NOT CONFIRMED", name, c[:300]); continue
    runs = []
    for l in lines:
        m = re.match(rf"CHECK name={name} prop=(C\d+) exit=(\d+) .*sigs=\[(.*)\]", l)
        if m:
            runs.append({"property": m.group(1), "exit": int(m.group(2)), "signatures": [s for s in m.group(3).split(";") if s], "framework": f"round-{rnd} measured run"})
    notes = [l.strip() for l in open(d + "NOTES.md").read().splitlines() if l.strip() and not l.startswith("#")]
    change = notes[0][:400] if notes else ""
    needs = next((l[:400] for l in notes if re.search(r"trigger|needs?\b|only (shows|when|fires)", l, re.I)), "")
    dst = f"/verif/seeded/{name}"
    os.makedirs(dst, exist_ok=True)
    for f in ("patch.diff", "demo.rs", "NOTES.md"):
        shutil.copy(d + f, dst + "/" + f)
    meta = {
        "id": name, "property": prop, "round": rnd,
        "origin": "independent sub-agent that saw only the property text and its own scratch worktree of /repo (nothing from /verif); asked for realistic 'optimisation / refactoring / well-meant fix' changes on secondary paths that need something specific to manifest",
        "change": change, "needs_to_manifest": needs,
        "confirmed_by_me": {"scratch_worktree": "/tmp/confirm/wt (removed)", "demo_on_clean_tree": g("clean_demo"), "baseline_with_patch": g("baseline_with_patch"),
                            "verif_hooks_build_errors_with_patch": int(re.search(r"hooks_build_errors=(\d+)", c).group(1)), "demo_with_patch": g("mutated_demo")},
        "framework_runs": runs,
        "detected_by": sorted({r["property"] for r in runs if r["exit"] == 1}),
        "how_run": "tools/seed_confirm.sh (git -C /repo apply patch.diff; ./check <property> quick; git -C /repo checkout -- .)",
    }
    json.dump(meta, open(dst + "/meta.json", "w"), indent=1)
    print("imported", name, "detected_by", meta["detected_by"])
