//! pdsmon — runtime monitors for pdatastructs.rs properties C01..C20 (see /verif/DESIGN.md).
//!
//! usage: pdsmon check <ID> [--tier quick|thorough] [--seed N] [--threads N] [--only STR]
//!        pdsmon sub <ID> ...      (run the property under this binary's profile, print the
//!                                  Report as JSON; used by the monrel binary to delegate the
//!                                  debug-assertion clauses to the mondbg binary)
//!        pdsmon replay <file>
//!        pdsmon mem <driver-args> (C11 driver for valgrind massif)
#![allow(dead_code)]
mod infra;
mod props;

use infra::{Ctx, Report, Tier};
use std::time::Instant;

#[global_allocator]
static GLOBAL: infra::alloc::CountingAlloc = infra::alloc::CountingAlloc;

/// root of the verification tree (evidence, replays, known findings, target dir)
pub fn verif_dir() -> String {
    std::env::var("PDS_VERIF_DIR").unwrap_or_else(|_| "/verif".to_string())
}

/// "mondbg" (debug assertions on), "monrel" (release + overflow checks) or "monfast" (plain release).
/// Overflow checking is detected at run time: `cfg(overflow_checks)` is not available on stable.
pub static PROFILE: std::sync::LazyLock<&'static str> = std::sync::LazyLock::new(|| {
    if cfg!(debug_assertions) {
        "mondbg"
    } else {
        let hook = std::panic::take_hook();
        std::panic::set_hook(Box::new(|_| {}));
        let traps = std::panic::catch_unwind(|| {
            let x: u8 = std::hint::black_box(255);
            std::hint::black_box(x + std::hint::black_box(1))
        })
        .is_err();
        std::panic::set_hook(hook);
        if traps {
            "monrel"
        } else {
            "monfast"
        }
    }
});

fn usage() -> ! {
    eprintln!("usage: pdsmon check|sub <ID> [--tier quick|thorough] [--seed N] [--threads N] [--only STR] | replay <file> | mem ...");
    std::process::exit(3);
}

fn parse_ctx(args: &[String]) -> Ctx {
    if args.is_empty() {
        usage();
    }
    let id = args[0].clone();
    let mut tier = match std::env::var("VERIF_TIER").ok().as_deref() {
        Some("thorough") => Tier::Thorough,
        _ => Tier::Quick,
    };
    let mut seed: u64 = std::env::var("VERIF_SEED")
        .ok()
        .and_then(|s| s.trim().parse::<i128>().ok())
        .map(|v| v as u64)
        .unwrap_or(1);
    let mut threads = std::thread::available_parallelism()
        .map(|n| n.get())
        .unwrap_or(8);
    let mut only = None;
    let mut only_item = None;
    let mut i = 1;
    while i < args.len() {
        match args[i].as_str() {
            "--tier" => {
                i += 1;
                tier = match args.get(i).map(|s| s.as_str()) {
                    Some("quick") => Tier::Quick,
                    Some("thorough") => Tier::Thorough,
                    _ => usage(),
                };
            }
            "--seed" => {
                i += 1;
                seed = args
                    .get(i)
                    .and_then(|s| s.parse::<i128>().ok())
                    .map(|v| v as u64)
                    .unwrap_or_else(|| usage());
            }
            "--threads" => {
                i += 1;
                threads = args
                    .get(i)
                    .and_then(|s| s.parse().ok())
                    .unwrap_or_else(|| usage());
            }
            "--only" => {
                i += 1;
                only = args.get(i).cloned();
            }
            "--item" => {
                i += 1;
                only_item = args.get(i).and_then(|s| s.parse().ok());
            }
            _ => usage(),
        }
        i += 1;
    }
    Ctx {
        id,
        tier,
        seed,
        profile: *PROFILE,
        threads,
        only,
        only_item,
    }
}

/// liveness monitor: more than `limit` CPU-seconds inside one crate call is reported as a violation
fn liveness(ctx: &Ctx, as_sub: bool) {
    let limit: u64 = std::env::var("VERIF_HANG_CPU_S").ok().and_then(|s| s.parse().ok()).unwrap_or(match ctx.tier {
        Tier::Quick => 90,
        Tier::Thorough => 240,
    });
    let c = ctx.clone();
    infra::start_liveness_monitor(
        limit,
        Box::new(move |item, cpu_s| {
            let sig = format!("{}/call-does-not-return", c.id);
            let what = format!(
                "a worker spent {:.0} CPU-seconds in work item #{} of {} ({} tier, seed {}, profile {}) without completing a single call into the crate (calls normally take microseconds): a call into the crate does not return. Reproduce with: pdsmon check {} --tier {} --seed {} --item {}",
                cpu_s, item, c.id, c.tier.name(), c.seed, c.profile, c.id, c.tier.name(), c.seed, item
            );
            if as_sub {
                let mut rep = Report::new();
                rep.violation(sig, what, serde_json::json!({"item": item, "profile": c.profile}));
                rep.evaluations = 1;
                println!("REPORT {}", serde_json::to_string(&rep).unwrap());
                std::process::exit(0);
            }
            let dir = verif_dir();
            let path = format!("{}/replays/{}-{}-{}-hang.json", dir, c.id, c.tier.name(), c.seed);
            let _ = std::fs::create_dir_all(format!("{}/replays", dir));
            let doc = serde_json::json!({"property": c.id, "tier": c.tier.name(), "seed": c.seed, "profile": c.profile, "signature": sig, "what": what, "witness": {"item": item}});
            let _ = std::fs::write(&path, serde_json::to_string_pretty(&doc).unwrap());
            println!("VIOLATION property={} replay={}", c.id, path);
            println!("  signature: {}", sig);
            println!("  what: {}", what);
            let ev = serde_json::json!({"property_id": c.id, "tier": c.tier.name(), "seed": c.seed, "level": "exploration",
                "coverage": {"evaluations": 1, "distinct_nontrivial": 0, "rule": "run aborted by the liveness monitor", "samples": [what], "replays": [path]},
                "assumptions": [], "wall_s": 0.0, "violations": 1});
            let _ = std::fs::write(format!("{}/evidence/{}.json", dir, c.id), serde_json::to_string_pretty(&ev).unwrap());
            println!("VIOLATED property={} tier={} seed={} (liveness monitor)", c.id, c.tier.name(), c.seed);
            std::process::exit(1);
        }),
    );
}

fn watchdog(ctx: &Ctx) {
    // generous wall-clock watchdog; firing is INCONCLUSIVE (exit 2), never a violation
    let secs: u64 = std::env::var("VERIF_WATCHDOG_S")
        .ok()
        .and_then(|s| s.parse().ok())
        .unwrap_or(match ctx.tier {
            Tier::Quick => 1500,
            Tier::Thorough => 4 * 3600,
        });
    let id = ctx.id.clone();
    std::thread::spawn(move || {
        std::thread::sleep(std::time::Duration::from_secs(secs));
        println!(
            "INCONCLUSIVE property={} reason=watchdog fired after {} s",
            id, secs
        );
        std::process::exit(2);
    });
}

/// the sub-runs of a property with `dbg_part`: debug assertions on, and plain release
pub const SUB_PROFILES: [&str; 2] = ["mondbg", "monfast"];

/// Run another profile's binary on the reduced workload and return its report.
pub fn run_sub(ctx: &Ctx, profile: &str) -> Result<Report, String> {
    let exe = format!("{}/target/{}/pdsmon", verif_dir(), profile);
    if !std::path::Path::new(&exe).exists() {
        return Err(format!("{} not built", exe));
    }
    let mut cmd = std::process::Command::new(&exe);
    cmd.arg("sub")
        .arg(&ctx.id)
        .arg("--tier")
        .arg(ctx.tier.name())
        .arg("--seed")
        .arg(format!("{}", ctx.seed))
        .arg("--threads")
        .arg(format!("{}", ctx.threads));
    if let Some(o) = &ctx.only {
        cmd.arg("--only").arg(o);
    }
    if let Some(o) = ctx.only_item {
        cmd.arg("--item").arg(format!("{}", o));
    }
    let out = cmd.output().map_err(|e| format!("spawn {}: {}", exe, e))?;
    if !out.status.success() {
        return Err(format!(
            "{} sub exited with {:?}: {}",
            profile,
            out.status.code(),
            String::from_utf8_lossy(&out.stderr)
                .chars()
                .take(2000)
                .collect::<String>()
        ));
    }
    let s = String::from_utf8_lossy(&out.stdout);
    let line = s
        .lines()
        .rev()
        .find(|l| l.starts_with("REPORT "))
        .ok_or_else(|| format!("no REPORT line from {} sub", profile))?;
    serde_json::from_str::<Report>(&line[7..]).map_err(|e| format!("bad REPORT json: {}", e))
}

fn main() {
    let args: Vec<String> = std::env::args().skip(1).collect();
    if args.is_empty() {
        usage();
    }
    infra::install_panic_hook();
    match args[0].as_str() {
        "check" => {
            let ctx = parse_ctx(&args[1..]);
            let start = Instant::now();
            watchdog(&ctx);
            liveness(&ctx, false);
            let p = props::lookup(&ctx.id).unwrap_or_else(|| {
                eprintln!("unknown property {}", ctx.id);
                std::process::exit(3)
            });
            let mut rep = (p.run)(&ctx);
            infra::drain_escaped_panics(&ctx.id, &mut rep);
            if p.dbg_part && !ctx.is_dbg() {
                for prof in SUB_PROFILES {
                    match run_sub(&ctx, prof) {
                        Ok(mut r) => {
                            // keep the sub-run's counters apart
                            let cs: Vec<(String, u64)> = r.counters.drain_filter_compat();
                            for (k, v) in cs {
                                r.counters.insert(format!("{}/{}", prof, k), v);
                            }
                            let ms: Vec<(String, f64)> = r.maxima.iter().map(|(k, v)| (k.clone(), *v)).collect();
                            r.maxima.clear();
                            for (k, v) in ms {
                                r.maxima.insert(format!("{}/{}", prof, k), v);
                            }
                            r.extra.clear();
                            rep.merge(r);
                        }
                        Err(e) => rep.inconclusive.push(format!("{} part: {}", prof, e)),
                    }
                }
            }
            let fin = infra::finish(&ctx, &rep, p.rule, p.assumptions, start, &verif_dir());
            std::process::exit(fin.exit_code);
        }
        "sub" => {
            let ctx = parse_ctx(&args[1..]);
            watchdog(&ctx);
            liveness(&ctx, true);
            let p = props::lookup(&ctx.id).unwrap_or_else(|| std::process::exit(3));
            let mut rep = (p.run)(&ctx);
            infra::drain_escaped_panics(&ctx.id, &mut rep);
            println!("REPORT {}", serde_json::to_string(&rep).unwrap());
        }
        "replay" => {
            let path = args.get(1).unwrap_or_else(|| usage());
            std::process::exit(props::replay(path));
        }
        "c18-hugek" => {
            std::process::exit(props::c18::huge_k_child());
        }
        "c10-hugek" => {
            std::process::exit(props::c10::huge_k_child());
        }
        "mem" => {
            std::process::exit(props::c11::mem_driver(&args[1..]));
        }
        _ => usage(),
    }
}

trait DrainCompat {
    fn drain_filter_compat(&mut self) -> Vec<(String, u64)>;
}
impl DrainCompat for std::collections::BTreeMap<String, u64> {
    fn drain_filter_compat(&mut self) -> Vec<(String, u64)> {
        let v: Vec<(String, u64)> = self.iter().map(|(k, v)| (k.clone(), *v)).collect();
        self.clear();
        v
    }
}
