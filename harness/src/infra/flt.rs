//! Uniform harness view of the crate's filters, always driven through the public `Filter` trait.
use crate::infra::hashers::{CtlBuildHasher, HMode};
use crate::infra::rngs::CtlRng;
use pdatastructs::filters::bloomfilter::BloomFilter;
use pdatastructs::filters::cuckoofilter::CuckooFilter;
use pdatastructs::filters::quotientfilter::QuotientFilter;
use pdatastructs::filters::Filter;
use serde::{Deserialize, Serialize};
use serde_json::{json, Value};
use std::collections::HashSet;

pub trait Flt: Sized {
    fn try_clone(&self) -> Option<Self>;
    /// `Clone::clone_from` of the crate's type where it is `Clone`; false = not available
    fn try_clone_from(&mut self, _src: &Self) -> bool {
        false
    }
    fn has_delete(&self) -> bool;
    fn kind(&self) -> &'static str;
    fn insert(&mut self, k: u64) -> Result<bool, ()>;
    fn query(&self, k: u64) -> bool;
    fn len(&self) -> usize;
    fn is_empty(&self) -> bool;
    fn clear(&mut self);
    fn union(&mut self, o: &Self) -> Result<(), ()>;
    /// None if the filter has no delete
    fn delete(&mut self, k: u64) -> Option<bool>;
    /// internal state for witnesses (diagnostic only)
    fn dump(&self) -> Value;
}

pub type Bloom = BloomFilter<u64, CtlBuildHasher>;
pub type Cuckoo = CuckooFilter<u64, CtlRng, CtlBuildHasher>;
pub type Qf = QuotientFilter<u64, CtlBuildHasher>;
pub type SBloom = BloomFilter<str, CtlBuildHasher>;
pub type SCuckoo = CuckooFilter<str, CtlRng, CtlBuildHasher>;
pub type SQf = QuotientFilter<str, CtlBuildHasher>;

pub fn skey(k: u64) -> String {
    format!("key/{:x}", k)
}

impl Flt for Bloom {
    fn try_clone(&self) -> Option<Self> {
        Some(self.clone())
    }
    fn try_clone_from(&mut self, src: &Self) -> bool {
        self.clone_from(src);
        true
    }
    fn has_delete(&self) -> bool {
        false
    }
    fn kind(&self) -> &'static str {
        "bloom"
    }
    fn insert(&mut self, k: u64) -> Result<bool, ()> {
        crate::infra::beat();
        Filter::insert(self, &k).map_err(|_| ())
    }
    fn query(&self, k: u64) -> bool {
        crate::infra::beat();
        Filter::query(self, &k)
    }
    fn len(&self) -> usize {
        Filter::len(self)
    }
    fn is_empty(&self) -> bool {
        Filter::is_empty(self)
    }
    fn clear(&mut self) {
        Filter::clear(self)
    }
    fn union(&mut self, o: &Self) -> Result<(), ()> {
        crate::infra::beat();
        Filter::union(self, o).map_err(|_| ())
    }
    fn delete(&mut self, _k: u64) -> Option<bool> {
        crate::infra::beat();
        None
    }
    fn dump(&self) -> Value {
        json!({"m": self.m(), "k": self.k()})
    }
}

impl Flt for Cuckoo {
    fn try_clone(&self) -> Option<Self> {
        Some(self.clone())
    }
    fn try_clone_from(&mut self, src: &Self) -> bool {
        self.clone_from(src);
        true
    }
    fn has_delete(&self) -> bool {
        true
    }
    fn kind(&self) -> &'static str {
        "cuckoo"
    }
    fn insert(&mut self, k: u64) -> Result<bool, ()> {
        crate::infra::beat();
        Filter::insert(self, &k).map_err(|_| ())
    }
    fn query(&self, k: u64) -> bool {
        crate::infra::beat();
        Filter::query(self, &k)
    }
    fn len(&self) -> usize {
        Filter::len(self)
    }
    fn is_empty(&self) -> bool {
        Filter::is_empty(self)
    }
    fn clear(&mut self) {
        Filter::clear(self)
    }
    fn union(&mut self, o: &Self) -> Result<(), ()> {
        crate::infra::beat();
        Filter::union(self, o).map_err(|_| ())
    }
    fn delete(&mut self, k: u64) -> Option<bool> {
        crate::infra::beat();
        Some(CuckooFilter::delete(self, &k))
    }
    fn dump(&self) -> Value {
        let n = self.bucketsize() * self.n_buckets();
        let s: Vec<u64> = self.verif_slots().into_iter().take(n).collect();
        json!({"bucketsize": self.bucketsize(), "n_buckets": self.n_buckets(), "l": self.l_fingerprint(), "slots": s})
    }
}

impl Flt for Qf {
    fn try_clone(&self) -> Option<Self> {
        Some(self.clone())
    }
    fn try_clone_from(&mut self, src: &Self) -> bool {
        self.clone_from(src);
        true
    }
    fn has_delete(&self) -> bool {
        false
    }
    fn kind(&self) -> &'static str {
        "quotient"
    }
    fn insert(&mut self, k: u64) -> Result<bool, ()> {
        crate::infra::beat();
        Filter::insert(self, &k).map_err(|_| ())
    }
    fn query(&self, k: u64) -> bool {
        crate::infra::beat();
        Filter::query(self, &k)
    }
    fn len(&self) -> usize {
        Filter::len(self)
    }
    fn is_empty(&self) -> bool {
        Filter::is_empty(self)
    }
    fn clear(&mut self) {
        Filter::clear(self)
    }
    fn union(&mut self, o: &Self) -> Result<(), ()> {
        crate::infra::beat();
        Filter::union(self, o).map_err(|_| ())
    }
    fn delete(&mut self, _k: u64) -> Option<bool> {
        crate::infra::beat();
        None
    }
    fn dump(&self) -> Value {
        let d: Vec<String> = self
            .verif_dump()
            .iter()
            .map(|(o, c, s, r)| {
                format!(
                    "{}{}{}:{:x}",
                    if *o { 'O' } else { '-' },
                    if *c { 'C' } else { '-' },
                    if *s { 'S' } else { '-' },
                    r
                )
            })
            .collect();
        json!({"q": self.bits_quotient(), "r": self.bits_remainder(), "slots": d})
    }
}

impl Flt for HashSet<u64> {
    fn try_clone(&self) -> Option<Self> {
        Some(self.clone())
    }
    fn has_delete(&self) -> bool {
        false
    }
    fn kind(&self) -> &'static str {
        "hashset"
    }
    fn insert(&mut self, k: u64) -> Result<bool, ()> {
        crate::infra::beat();
        <Self as Filter<u64>>::insert(self, &k).map_err(|_| ())
    }
    fn query(&self, k: u64) -> bool {
        crate::infra::beat();
        <Self as Filter<u64>>::query(self, &k)
    }
    fn len(&self) -> usize {
        <Self as Filter<u64>>::len(self)
    }
    fn is_empty(&self) -> bool {
        <Self as Filter<u64>>::is_empty(self)
    }
    fn clear(&mut self) {
        <Self as Filter<u64>>::clear(self)
    }
    fn union(&mut self, o: &Self) -> Result<(), ()> {
        crate::infra::beat();
        <Self as Filter<u64>>::union(self, o).map_err(|_| ())
    }
    fn delete(&mut self, _k: u64) -> Option<bool> {
        crate::infra::beat();
        None
    }
    fn dump(&self) -> Value {
        json!({"len": HashSet::len(self)})
    }
}

/// `str`-keyed variants (unsized `T`): key k is the string `skey(k)`
pub struct StrBloom(pub SBloom);
pub struct StrCuckoo(pub SCuckoo);
pub struct StrQf(pub SQf);

macro_rules! str_flt {
    ($t:ty, $kind:expr, $del:expr) => {
        impl Flt for $t {
            fn try_clone(&self) -> Option<Self> {
                None
            }
            fn has_delete(&self) -> bool {
                $kind.starts_with("cuckoo")
            }
            fn kind(&self) -> &'static str {
                $kind
            }
            fn insert(&mut self, k: u64) -> Result<bool, ()> {
        crate::infra::beat();
                Filter::insert(&mut self.0, skey(k).as_str()).map_err(|_| ())
            }
            fn query(&self, k: u64) -> bool {
        crate::infra::beat();
                Filter::query(&self.0, skey(k).as_str())
            }
            fn len(&self) -> usize {
                Filter::len(&self.0)
            }
            fn is_empty(&self) -> bool {
                Filter::is_empty(&self.0)
            }
            fn clear(&mut self) {
                Filter::clear(&mut self.0)
            }
            fn union(&mut self, o: &Self) -> Result<(), ()> {
        crate::infra::beat();
                Filter::union(&mut self.0, &o.0).map_err(|_| ())
            }
            fn delete(&mut self, k: u64) -> Option<bool> {
        crate::infra::beat();
                #[allow(clippy::redundant_closure_call)]
                ($del)(&mut self.0, k)
            }
            fn dump(&self) -> Value {
                json!({})
            }
        }
    };
}

str_flt!(StrBloom, "bloom/str", |_f: &mut SBloom, _k: u64| None);
str_flt!(StrCuckoo, "cuckoo/str", |f: &mut SCuckoo, k: u64| Some(
    f.delete(skey(k).as_str())
));
str_flt!(StrQf, "quotient/str", |_f: &mut SQf, _k: u64| None);

// ---------------------------------------------------------------------------------------------
// serialisable configuration

#[derive(Clone, Debug, Serialize, Deserialize, PartialEq)]
pub enum RngSpec {
    Fast(u64),
    Hostile(u64, f64),
    ChaCha(u64),
}

impl RngSpec {
    pub fn make(&self) -> CtlRng {
        match self {
            RngSpec::Fast(s) => CtlRng::fast(*s),
            RngSpec::Hostile(s, p) => CtlRng::hostile(*s, *p),
            RngSpec::ChaCha(s) => CtlRng::chacha(*s),
        }
    }
}

#[derive(Clone, Debug, Serialize, Deserialize, PartialEq)]
pub struct BloomCfg {
    pub m: usize,
    pub k: usize,
    pub bh: CtlBuildHasher,
}

impl BloomCfg {
    pub fn make(&self) -> Bloom {
        BloomFilter::with_params_and_hash(self.m, self.k, self.bh)
    }
    pub fn make_str(&self) -> StrBloom {
        StrBloom(BloomFilter::with_params_and_hash(self.m, self.k, self.bh))
    }
    pub fn label(&self) -> String {
        format!("bloom(m={},k={},{})", self.m, self.k, self.bh.name())
    }
}

#[derive(Clone, Debug, Serialize, Deserialize, PartialEq)]
pub struct CuckooCfg {
    pub bucketsize: usize,
    pub n_buckets: usize,
    pub l: usize,
    pub bh: CtlBuildHasher,
    pub rng: RngSpec,
}

impl CuckooCfg {
    pub fn make(&self) -> Cuckoo {
        CuckooFilter::with_params_and_hash(
            self.rng.make(),
            self.bucketsize,
            self.n_buckets,
            self.l,
            self.bh,
        )
    }
    pub fn make_str(&self) -> StrCuckoo {
        StrCuckoo(CuckooFilter::with_params_and_hash(
            self.rng.make(),
            self.bucketsize,
            self.n_buckets,
            self.l,
            self.bh,
        ))
    }
    pub fn slots(&self) -> usize {
        self.bucketsize * self.n_buckets
    }
    pub fn label(&self) -> String {
        format!(
            "cuckoo(b={},n={},l={},{})",
            self.bucketsize,
            self.n_buckets,
            self.l,
            self.bh.name()
        )
    }
}

#[derive(Clone, Debug, Serialize, Deserialize, PartialEq)]
pub struct QfCfg {
    pub q: usize,
    pub r: usize,
    pub bh: CtlBuildHasher,
}

impl QfCfg {
    pub fn make(&self) -> Qf {
        QuotientFilter::with_params_and_hash(self.q, self.r, self.bh)
    }
    pub fn make_str(&self) -> StrQf {
        StrQf(QuotientFilter::with_params_and_hash(self.q, self.r, self.bh))
    }
    pub fn slots(&self) -> usize {
        1usize << self.q
    }
    pub fn label(&self) -> String {
        format!("qf(q={},r={},{})", self.q, self.r, self.bh.name())
    }
    /// under the Identity hasher: key with the given quotient and remainder
    pub fn key(&self, quotient: u64, remainder: u64) -> u64 {
        debug_assert!(self.bh.mode == HMode::Identity);
        (quotient << self.r) | remainder
    }
}
