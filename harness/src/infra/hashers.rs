//! Harness-controlled `BuildHasher`s (DESIGN §3.1).
//!
//! One concrete type `CtlBuildHasher { mode, seed }` so that every structure under test is
//! monomorphic.  `finish()` is a pure function of the sequence of `write_*` calls.
use serde::{Deserialize, Serialize};
use std::collections::hash_map::DefaultHasher;
use std::hash::{BuildHasher, Hasher};

#[derive(Clone, Copy, Debug, PartialEq, Eq, Hash, Serialize, Deserialize)]
pub enum HMode {
    /// well-distributed seeded mixer (independent across seeds)
    Mix,
    /// `finish()` = last data word written (hash_one(k: u64) == k); IV ignored
    Identity,
    /// IV-aware identity: no IV -> k; IV 0 -> k >> 32; IV 1 -> k & 0xffff_ffff; IV only -> mix(iv)
    Layout,
    /// Mix output restricted to the low `n` bits
    Collide(u8),
    /// everything hashes to `seed`
    Constant,
    /// SipHash (std DefaultHasher) with the seed written first, like `BuildHasherSeeded`
    Sip,
}

#[derive(Clone, Copy, Debug, PartialEq, Eq, Hash, Serialize, Deserialize)]
pub struct CtlBuildHasher {
    pub mode: HMode,
    pub seed: u64,
}

impl CtlBuildHasher {
    pub fn new(mode: HMode, seed: u64) -> Self {
        Self { mode, seed }
    }
    pub fn mix(seed: u64) -> Self {
        Self::new(HMode::Mix, seed)
    }
    pub fn identity() -> Self {
        Self::new(HMode::Identity, 0)
    }
    pub fn layout() -> Self {
        Self::new(HMode::Layout, 0)
    }
    pub fn name(&self) -> String {
        match self.mode {
            HMode::Mix => format!("mix:{:x}", self.seed),
            HMode::Identity => "identity".into(),
            HMode::Layout => "layout".into(),
            HMode::Collide(b) => format!("collide{}:{:x}", b, self.seed),
            HMode::Constant => format!("const:{:x}", self.seed),
            HMode::Sip => format!("sip:{:x}", self.seed),
        }
    }
}

#[inline]
pub fn mix64(mut z: u64) -> u64 {
    z = z.wrapping_add(0x9E37_79B9_7F4A_7C15);
    z = (z ^ (z >> 30)).wrapping_mul(0xBF58_476D_1CE4_E5B9);
    z = (z ^ (z >> 27)).wrapping_mul(0x94D0_49BB_1331_11EB);
    z ^ (z >> 31)
}

pub enum CtlHasher {
    Rec {
        mode: HMode,
        seed: u64,
        n_writes: u32,
        iv: Option<u64>,
        acc: u64,
        last: u64,
        has_data: bool,
    },
    Sip(DefaultHasher),
}

impl CtlHasher {
    #[inline]
    fn data(&mut self, v: u64) {
        if let CtlHasher::Rec {
            n_writes,
            acc,
            last,
            has_data,
            ..
        } = self
        {
            *n_writes += 1;
            *acc = mix64(*acc ^ v).wrapping_add(*n_writes as u64);
            *last = v;
            *has_data = true;
        }
    }
}

impl Hasher for CtlHasher {
    fn finish(&self) -> u64 {
        match self {
            CtlHasher::Sip(h) => h.finish(),
            CtlHasher::Rec {
                mode,
                seed,
                iv,
                acc,
                last,
                has_data,
                ..
            } => {
                let full = mix64(
                    *acc ^ seed.wrapping_mul(0xD6E8_FEB8_6659_FD93)
                        ^ iv.map(|v| mix64(v.wrapping_add(0x51_7C_C1_B7))).unwrap_or(0),
                );
                match mode {
                    HMode::Mix => full,
                    HMode::Identity => {
                        if *has_data {
                            *last
                        } else {
                            iv.unwrap_or(0)
                        }
                    }
                    HMode::Layout => {
                        if !*has_data {
                            full
                        } else {
                            match iv {
                                None => *last,
                                Some(0) => *last >> 32,
                                Some(1) => *last & 0xffff_ffff,
                                Some(_) => full,
                            }
                        }
                    }
                    HMode::Collide(b) => {
                        if *b >= 64 {
                            full
                        } else {
                            full & ((1u64 << *b) - 1)
                        }
                    }
                    HMode::Constant => *seed,
                    HMode::Sip => unreachable!(),
                }
            }
        }
    }

    fn write(&mut self, bytes: &[u8]) {
        match self {
            CtlHasher::Sip(h) => h.write(bytes),
            CtlHasher::Rec { .. } => {
                let mut folded: u64 = bytes.len() as u64;
                for chunk in bytes.chunks(8) {
                    let mut w = [0u8; 8];
                    w[..chunk.len()].copy_from_slice(chunk);
                    folded = mix64(folded ^ u64::from_le_bytes(w));
                }
                self.data(folded);
            }
        }
    }

    fn write_u8(&mut self, i: u8) {
        match self {
            CtlHasher::Sip(h) => h.write_u8(i),
            // str hashing appends 0xff: fold it but keep `last` of the string body
            CtlHasher::Rec { acc, .. } => {
                *acc = mix64(*acc ^ (i as u64) ^ 0xA5A5);
            }
        }
    }

    fn write_u64(&mut self, i: u64) {
        match self {
            CtlHasher::Sip(h) => h.write_u64(i),
            CtlHasher::Rec { .. } => self.data(i),
        }
    }

    fn write_usize(&mut self, i: usize) {
        match self {
            CtlHasher::Sip(h) => h.write_usize(i),
            CtlHasher::Rec { n_writes, iv, .. } => {
                if *n_writes == 0 && iv.is_none() {
                    *iv = Some(i as u64);
                } else {
                    self.data(i as u64)
                }
            }
        }
    }
}

impl BuildHasher for CtlBuildHasher {
    type Hasher = CtlHasher;
    fn build_hasher(&self) -> CtlHasher {
        match self.mode {
            HMode::Sip => {
                let mut h = DefaultHasher::default();
                h.write_u64(self.seed);
                CtlHasher::Sip(h)
            }
            mode => CtlHasher::Rec {
                mode,
                seed: self.seed,
                n_writes: 0,
                iv: None,
                acc: 0,
                last: 0,
                has_data: false,
            },
        }
    }
}

#[cfg(test)]
mod tests {
    use super::*;
    use std::hash::BuildHasher;

    #[test]
    fn identity_is_identity() {
        let bh = CtlBuildHasher::identity();
        for k in [0u64, 1, 77, u64::MAX, 1 << 63] {
            assert_eq!(bh.hash_one(k), k);
        }
    }

    #[test]
    fn layout_iv() {
        let bh = CtlBuildHasher::layout();
        let k: u64 = (0xABCD << 32) | 0x1234;
        let mut h = bh.build_hasher();
        h.write_usize(0);
        h.write_u64(k);
        assert_eq!(h.finish(), 0xABCD);
        let mut h = bh.build_hasher();
        h.write_usize(1);
        h.write_u64(k);
        assert_eq!(h.finish(), 0x1234);
        assert_eq!(bh.hash_one(k), k);
    }

    #[test]
    fn mix_differs_by_seed_and_iv() {
        let a = CtlBuildHasher::mix(1);
        let b = CtlBuildHasher::mix(2);
        assert_ne!(a.hash_one(5u64), b.hash_one(5u64));
        let mut h0 = a.build_hasher();
        h0.write_usize(0);
        h0.write_u64(5);
        let mut h1 = a.build_hasher();
        h1.write_usize(1);
        h1.write_u64(5);
        assert_ne!(h0.finish(), h1.finish());
        // bit balance
        let mut ones = [0u32; 64];
        for k in 0..4096u64 {
            let v = a.hash_one(k);
            for (b, o) in ones.iter_mut().enumerate() {
                *o += ((v >> b) & 1) as u32;
            }
        }
        for o in ones {
            assert!((1800..2300).contains(&o), "bit balance {}", o);
        }
    }
}
