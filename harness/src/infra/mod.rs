//! Shared monitor infrastructure: report/verdict types, parallel driver, panic capture,
//! known-findings matching and evidence writer.
pub mod alloc;
pub mod fclass;
pub mod flt;
pub mod hashers;
pub mod rngs;
pub mod stats;
pub mod td;

use serde::{Deserialize, Serialize};
use serde_json::{json, Map, Value};
use std::cell::RefCell;
use std::collections::{BTreeMap, HashSet};
use std::panic::{catch_unwind, AssertUnwindSafe};
use std::sync::atomic::{AtomicUsize, Ordering};
use std::sync::Mutex;
use std::time::Instant;

pub use pdatastructs::verif::{Event, EVENT_NAMES};

#[derive(Clone, Copy, Debug, PartialEq, Eq, Serialize, Deserialize)]
pub enum Tier {
    Quick,
    Thorough,
}

impl Tier {
    pub fn name(&self) -> &'static str {
        match self {
            Tier::Quick => "quick",
            Tier::Thorough => "thorough",
        }
    }
    /// pick by tier
    pub fn pick<T>(&self, quick: T, thorough: T) -> T {
        match self {
            Tier::Quick => quick,
            Tier::Thorough => thorough,
        }
    }
}

#[derive(Clone, Debug)]
pub struct Ctx {
    pub id: String,
    pub tier: Tier,
    pub seed: u64,
    /// "monrel" or "mondbg"
    pub profile: &'static str,
    pub threads: usize,
    /// optional restriction to work items whose label contains this string (replay / debugging)
    pub only: Option<String>,
    /// run only this work-item index of the (outermost) parallel loop (replay of a hang)
    pub only_item: Option<usize>,
}

impl Ctx {
    /// true in a sub-run (mondbg: debug assertions on; monfast: plain release without overflow
    /// checks). Sub-runs execute the same generators on a reduced budget.
    pub fn is_dbg(&self) -> bool {
        self.profile != "monrel"
    }
    pub fn sub_seed(&self, parts: &[u64]) -> u64 {
        // the plain-release sub-run gets its own workloads instead of repeating mondbg's
        let salt = if self.profile == "monfast" { 0xFA57_0000_0000_0001 } else { 0 };
        rngs::sub_seed(self.seed ^ salt ^ rngs::str_seed(&self.id), parts)
    }
}

#[derive(Clone, Debug, Serialize, Deserialize)]
pub struct Violation {
    /// canonical signature: oracle clause + minimal identifying input class
    pub signature: String,
    pub what: String,
    /// witness (config, history, failing observation)
    pub witness: Value,
    /// magnitude for statistical cells (compared with a known finding's envelope)
    #[serde(default)]
    pub magnitude: Option<f64>,
}

/// What a (partial) run observed. Mergeable.
#[derive(Clone, Debug, Default, Serialize, Deserialize)]
pub struct Report {
    pub evaluations: u64,
    /// hashes of distinct non-trivial cases
    pub distinct: HashSet<u64>,
    pub samples: Vec<Value>,
    pub violations: Vec<Violation>,
    pub inconclusive: Vec<String>,
    /// hook event counters (sum) / gauges (max), by event name
    pub events: BTreeMap<String, u64>,
    /// named counters owned by the property (sum)
    pub counters: BTreeMap<String, u64>,
    /// named maxima owned by the property (e.g. worst observed ratio)
    pub maxima: BTreeMap<String, f64>,
    /// free-form per-property notes (cells etc.)
    pub extra: Map<String, Value>,
    pub configs: HashSet<String>,
}

const MAX_SAMPLES: usize = 6;
const MAX_VIOLATIONS_KEPT: usize = 40;

fn is_gauge(name: &str) -> bool {
    name.ends_with("Max")
}

impl Report {
    pub fn new() -> Self {
        Self::default()
    }
    pub fn merge(&mut self, o: Report) {
        self.evaluations += o.evaluations;
        self.distinct.extend(o.distinct);
        for s in o.samples {
            if self.samples.len() < MAX_SAMPLES {
                self.samples.push(s);
            }
        }
        for v in o.violations {
            self.add_violation(v);
        }
        self.inconclusive.extend(o.inconclusive);
        for (k, v) in o.events {
            let e = self.events.entry(k.clone()).or_insert(0);
            if is_gauge(&k) {
                *e = (*e).max(v);
            } else {
                *e += v;
            }
        }
        for (k, v) in o.counters {
            *self.counters.entry(k).or_insert(0) += v;
        }
        for (k, v) in o.maxima {
            let e = self.maxima.entry(k).or_insert(f64::NEG_INFINITY);
            if v > *e {
                *e = v;
            }
        }
        for (k, v) in o.extra {
            match (self.extra.get_mut(&k), v) {
                (Some(Value::Array(a)), Value::Array(b)) => a.extend(b),
                (_, v) => {
                    self.extra.insert(k, v);
                }
            }
        }
        self.configs.extend(o.configs);
    }
    pub fn add_violation(&mut self, v: Violation) {
        // keep at most a few per signature, bounded overall
        let same = self
            .violations
            .iter()
            .filter(|x| x.signature == v.signature)
            .count();
        if same < 2 && self.violations.len() < MAX_VIOLATIONS_KEPT {
            self.violations.push(v);
        } else {
            *self.counters.entry("violations_dropped".into()).or_insert(0) += 1;
        }
    }
    pub fn violation(&mut self, signature: impl Into<String>, what: impl Into<String>, witness: Value) {
        self.add_violation(Violation {
            signature: signature.into(),
            what: what.into(),
            witness,
            magnitude: None,
        });
    }
    pub fn violation_mag(
        &mut self,
        signature: impl Into<String>,
        what: impl Into<String>,
        witness: Value,
        magnitude: f64,
    ) {
        self.add_violation(Violation {
            signature: signature.into(),
            what: what.into(),
            witness,
            magnitude: Some(magnitude),
        });
    }
    pub fn sample(&mut self, v: Value) {
        if self.samples.len() < MAX_SAMPLES {
            self.samples.push(v);
        }
    }
    pub fn want_sample(&self) -> bool {
        self.samples.len() < MAX_SAMPLES
    }
    pub fn count(&mut self, name: &str, n: u64) {
        *self.counters.entry(name.into()).or_insert(0) += n;
    }
    pub fn max(&mut self, name: &str, v: f64) {
        let e = self.maxima.entry(name.into()).or_insert(f64::NEG_INFINITY);
        if v > *e {
            *e = v;
        }
    }
    pub fn nontrivial(&mut self, h: u64) {
        self.distinct.insert(h);
    }
    pub fn config(&mut self, c: impl Into<String>) {
        if self.configs.len() < 5000 {
            self.configs.insert(c.into());
        }
    }
    /// absorb the current thread's hook counters and reset them
    pub fn absorb_events(&mut self) {
        let snap = pdatastructs::verif::snapshot();
        pdatastructs::verif::reset();
        for (i, v) in snap.iter().enumerate() {
            if *v == 0 {
                continue;
            }
            let name = EVENT_NAMES[i];
            let e = self.events.entry(name.to_string()).or_insert(0);
            if is_gauge(name) {
                *e = (*e).max(*v);
            } else {
                *e += *v;
            }
        }
    }
    pub fn event(&self, name: &str) -> u64 {
        self.events.get(name).copied().unwrap_or(0)
    }
    /// require that hook events were observed, else the run is inconclusive
    pub fn require_events(&mut self, names: &[&str]) {
        for n in names {
            if self.event(n) == 0 {
                self.inconclusive
                    .push(format!("required hook event {} never observed", n));
            }
        }
    }
}

// ---------------------------------------------------------------------------------------------
// hashing of cases for the distinct-nontrivial count

pub fn fnv(bytes: &[u8]) -> u64 {
    let mut z = 0xcbf2_9ce4_8422_2325u64;
    for b in bytes {
        z = (z ^ *b as u64).wrapping_mul(0x100_0000_01b3);
    }
    z
}

#[derive(Clone, Copy, Debug)]
pub struct CaseHash(pub u64);

impl CaseHash {
    pub fn new(tag: &str) -> Self {
        CaseHash(fnv(tag.as_bytes()))
    }
    #[inline]
    pub fn push(&mut self, v: u64) {
        self.0 = hashers::mix64(self.0 ^ v).wrapping_add(0x9E37);
    }
    pub fn push_str(&mut self, s: &str) {
        self.push(fnv(s.as_bytes()));
    }
}

// ---------------------------------------------------------------------------------------------
// liveness monitor: a worker that burns CPU without completing a guarded call / work item is
// spinning inside the code under test (a call that never returns cannot satisfy any property)

pub struct Slot {
    pub tid: u64,
    pub beats: std::sync::atomic::AtomicU64,
    pub item: std::sync::atomic::AtomicU64,
}

static SLOTS: Mutex<Vec<std::sync::Arc<Slot>>> = Mutex::new(Vec::new());

thread_local! {
    static MY_SLOT: RefCell<Option<std::sync::Arc<Slot>>> = const { RefCell::new(None) };
}

fn my_tid() -> u64 {
    std::fs::read_link("/proc/thread-self")
        .ok()
        .and_then(|p| p.file_name().map(|f| f.to_string_lossy().to_string()))
        .and_then(|s| s.parse().ok())
        .unwrap_or(0)
}

fn register_worker() {
    MY_SLOT.with(|m| {
        if m.borrow().is_none() {
            let slot = std::sync::Arc::new(Slot {
                tid: my_tid(),
                beats: std::sync::atomic::AtomicU64::new(0),
                item: std::sync::atomic::AtomicU64::new(u64::MAX),
            });
            SLOTS.lock().unwrap().push(std::sync::Arc::clone(&slot));
            *m.borrow_mut() = Some(slot);
        }
    });
}

fn unregister_worker() {
    MY_SLOT.with(|m| {
        if let Some(slot) = m.borrow_mut().take() {
            SLOTS.lock().unwrap().retain(|s| !std::sync::Arc::ptr_eq(s, &slot));
        }
    });
}

/// progress heartbeat (cheap): called at every guarded call and work item
#[inline]
pub fn beat() {
    MY_SLOT.with(|m| {
        if let Some(s) = m.borrow().as_ref() {
            s.beats.fetch_add(1, Ordering::Relaxed);
        }
    });
}

fn set_item(i: u64) {
    MY_SLOT.with(|m| {
        if let Some(s) = m.borrow().as_ref() {
            s.item.store(i, Ordering::Relaxed);
            s.beats.fetch_add(1, Ordering::Relaxed);
        }
    });
}

/// CPU time (user+system, in clock ticks of 10 ms) consumed by thread `tid` of this process
fn thread_cpu_ticks(tid: u64) -> Option<u64> {
    let s = std::fs::read_to_string(format!("/proc/self/task/{}/stat", tid)).ok()?;
    let rest = &s[s.rfind(')')? + 1..];
    let f: Vec<&str> = rest.split_whitespace().collect();
    Some(f.get(11)?.parse::<u64>().ok()? + f.get(12)?.parse::<u64>().ok()?)
}

/// Start the liveness monitor. `on_hang(item, cpu_seconds)` is called (once) from the monitor
/// thread when a worker consumed more than `limit_cpu_s` CPU-seconds without a heartbeat.
pub fn start_liveness_monitor(limit_cpu_s: u64, on_hang: Box<dyn Fn(u64, f64) + Send>) {
    std::thread::spawn(move || {
        // tid -> (beats seen, cpu ticks at that time)
        let mut seen: std::collections::HashMap<u64, (u64, u64)> = std::collections::HashMap::new();
        loop {
            std::thread::sleep(std::time::Duration::from_millis(1500));
            let slots: Vec<std::sync::Arc<Slot>> = SLOTS.lock().unwrap().clone();
            for s in slots {
                let Some(cpu) = thread_cpu_ticks(s.tid) else { continue };
                let b = s.beats.load(Ordering::Relaxed);
                match seen.get(&s.tid) {
                    Some((b0, c0)) if *b0 == b => {
                        if cpu.saturating_sub(*c0) > limit_cpu_s * 100 {
                            on_hang(s.item.load(Ordering::Relaxed), (cpu - c0) as f64 / 100.0);
                            return;
                        }
                    }
                    _ => {
                        seen.insert(s.tid, (b, cpu));
                    }
                }
            }
        }
    });
}

// ---------------------------------------------------------------------------------------------
// panic capture

thread_local! {
    static LAST_PANIC: RefCell<Option<String>> = const { RefCell::new(None) };
}

pub fn install_panic_hook() {
    std::panic::set_hook(Box::new(|info| {
        let msg = if let Some(s) = info.payload().downcast_ref::<&str>() {
            s.to_string()
        } else if let Some(s) = info.payload().downcast_ref::<String>() {
            s.clone()
        } else {
            "<non-string panic>".to_string()
        };
        let loc = info
            .location()
            .map(|l| format!("{}:{}", l.file(), l.line()))
            .unwrap_or_default();
        LAST_PANIC.with(|p| *p.borrow_mut() = Some(format!("{} @ {}", msg, loc)));
    }));
}

/// Run `f`, converting a panic into `Err(message @ location)`.
pub fn guarded<T>(f: impl FnOnce() -> T) -> Result<T, String> {
    beat();
    match catch_unwind(AssertUnwindSafe(f)) {
        Ok(v) => Ok(v),
        Err(_) => Err(LAST_PANIC
            .with(|p| p.borrow_mut().take())
            .unwrap_or_else(|| "<panic>".into())),
    }
}

/// Strip line numbers etc. so panic signatures are stable: keep "file" and the first words
pub fn panic_class(msg: &str) -> String {
    let (m, loc) = match msg.rsplit_once(" @ ") {
        Some((m, l)) => (m, l),
        None => (msg, ""),
    };
    let file = loc.rsplit_once(':').map(|x| x.0).unwrap_or(loc);
    let file = file.rsplit('/').next().unwrap_or(file);
    let words: String = m
        .chars()
        .map(|c| if c.is_ascii_digit() { '#' } else { c })
        .take(48)
        .collect();
    format!("{}|{}", file, words)
}

// ---------------------------------------------------------------------------------------------
// parallel driver: deterministic per-item seeds, merge in item order

static PAR_RUN_CALLS: AtomicUsize = AtomicUsize::new(0);

pub fn par_run<F>(ctx: &Ctx, n_items: usize, f: F) -> Report
where
    F: Fn(usize, &mut Report) + Sync,
{
    // the first parallel loop of a run is the property's main loop: its item index is recorded in
    // every witness (`"item"`), and `--item i` restricts that loop to one item (fast replay)
    let is_main_loop = PAR_RUN_CALLS.fetch_add(1, Ordering::SeqCst) == 0;
    let next = AtomicUsize::new(0);
    let results: Mutex<Vec<(usize, Report)>> = Mutex::new(Vec::new());
    let threads = ctx.threads.max(1).min(n_items.max(1));
    std::thread::scope(|s| {
        for _ in 0..threads {
            s.spawn(|| {
                pdatastructs::verif::reset();
                pdatastructs::verif::set_kick_budget(None);
                register_worker();
                let mut local: Vec<(usize, Report)> = Vec::new();
                loop {
                    let i = next.fetch_add(1, Ordering::Relaxed);
                    if i >= n_items {
                        break;
                    }
                    if is_main_loop {
                        if let Some(only) = ctx.only_item {
                            if i != only {
                                continue;
                            }
                        }
                    }
                    set_item(i as u64);
                    let mut rep = Report::new();
                    let r = guarded(|| f(i, &mut rep));
                    if let Err(msg) = r {
                        // also remembered globally: callers may drop the Report of a nested par_run
                        ESCAPED_PANICS.lock().unwrap().push((i, msg));
                    }
                    pdatastructs::verif::set_kick_budget(None);
                    rep.absorb_events();
                    if is_main_loop {
                        for v in rep.violations.iter_mut() {
                            if let Value::Object(m) = &mut v.witness {
                                m.entry("item").or_insert(json!(i));
                                m.entry("profile").or_insert(json!(*crate::PROFILE));
                            }
                        }
                    }
                    local.push((i, rep));
                    // fold to bound memory
                    if local.len() >= 64 {
                        let mut acc = Report::new();
                        let first = local[0].0;
                        for (_, r) in local.drain(..) {
                            acc.merge(r);
                        }
                        results.lock().unwrap().push((first, acc));
                    }
                }
                unregister_worker();
                let mut g = results.lock().unwrap();
                g.extend(local);
            });
        }
    });
    let mut v = results.into_inner().unwrap();
    v.sort_by_key(|x| x.0);
    let mut out = Report::new();
    for (_, r) in v {
        out.merge(r);
    }
    out
}

/// panics that escaped a work item (not caught by a property's own `guarded` call)
static ESCAPED_PANICS: Mutex<Vec<(usize, String)>> = Mutex::new(Vec::new());

/// Move escaped panics into the report: a panic raised inside the crate (location under the crate's
/// sources) on an input the harness generated as valid is a violation of the property being
/// checked; a panic in harness code makes the run inconclusive. Nothing is dropped silently.
pub fn drain_escaped_panics(id: &str, rep: &mut Report) {
    let v: Vec<(usize, String)> = std::mem::take(&mut *ESCAPED_PANICS.lock().unwrap());
    for (item, msg) in v {
        let in_crate = msg.contains("/repo/src/") || msg.contains("pdatastructs") || msg.contains("/src/filters/") || msg.contains("/src/hyperloglog/") || msg.contains("/src/topk/");
        let in_harness = msg.contains("src/props/") || msg.contains("src/infra/") || msg.contains("src/main.rs");
        if in_crate && !in_harness {
            rep.violation(
                format!("{}/panic/{}", id, panic_class(&msg)),
                format!("a call into the crate panicked in work item #{}: {}", item, msg),
                json!({"item": item, "panic": msg}),
            );
        } else {
            rep.inconclusive.push(format!("harness panic in item {}: {}", item, msg));
        }
    }
}

// ---------------------------------------------------------------------------------------------
// known findings

#[derive(Clone, Debug, Deserialize)]
pub struct KnownFinding {
    pub status: String,
    pub property: String,
    pub signature: String,
    pub what: String,
    #[serde(default)]
    pub commit: Option<String>,
    /// statistical cells: suppress only up to this magnitude
    #[serde(default)]
    pub max_magnitude: Option<f64>,
}

pub fn load_known(path: &str) -> Vec<KnownFinding> {
    match std::fs::read_to_string(path) {
        Ok(s) => serde_json::from_str::<Vec<KnownFinding>>(&s).unwrap_or_else(|e| {
            eprintln!("cannot parse {}: {}", path, e);
            std::process::exit(3);
        }),
        Err(_) => vec![],
    }
}

// ---------------------------------------------------------------------------------------------
// finishing a run: classify violations, write evidence + replays, print verdict lines

pub struct Finish {
    pub exit_code: i32,
}

#[allow(clippy::too_many_arguments)]
pub fn finish(
    ctx: &Ctx,
    rep: &Report,
    rule: &str,
    assumptions: &[&str],
    start: Instant,
    verif_dir: &str,
) -> Finish {
    let known = load_known(&format!("{}/known_findings.json", verif_dir));
    let mut new_violations: Vec<&Violation> = vec![];
    let mut known_hits: BTreeMap<String, (String, usize)> = BTreeMap::new();
    for v in &rep.violations {
        let k = known.iter().find(|k| {
            k.status == "known"
                && k.property == ctx.id
                && k.signature == v.signature
                && match (k.max_magnitude, v.magnitude) {
                    (Some(mx), Some(m)) => m <= mx,
                    _ => true,
                }
        });
        match k {
            Some(k) => {
                let e = known_hits
                    .entry(k.signature.clone())
                    .or_insert((k.what.clone(), 0));
                e.1 += 1;
            }
            None => new_violations.push(v),
        }
    }
    for (sig, (what, _n)) in &known_hits {
        println!("KNOWN-FINDING: property={} {} [{}]", ctx.id, what, sig);
    }
    let mut replay_paths = vec![];
    for (k, v) in new_violations.iter().enumerate() {
        let path = format!(
            "{}/replays/{}-{}-{}-{}.json",
            verif_dir,
            ctx.id,
            ctx.tier.name(),
            ctx.seed,
            k
        );
        let doc = json!({
            "property": ctx.id,
            "tier": ctx.tier.name(),
            "seed": ctx.seed,
            "profile": ctx.profile,
            "signature": v.signature,
            "what": v.what,
            "magnitude": v.magnitude,
            "witness": v.witness,
        });
        let _ = std::fs::create_dir_all(format!("{}/replays", verif_dir));
        let _ = std::fs::write(&path, serde_json::to_string_pretty(&doc).unwrap());
        println!("VIOLATION property={} replay={}", ctx.id, path);
        println!("  signature: {}", v.signature);
        println!("  what: {}", v.what);
        replay_paths.push(path);
    }
    for r in &rep.inconclusive {
        println!("INCONCLUSIVE property={} reason={}", ctx.id, r);
    }

    // evidence
    let mut coverage = Map::new();
    coverage.insert("evaluations".into(), json!(rep.evaluations));
    coverage.insert("distinct_nontrivial".into(), json!(rep.distinct.len()));
    coverage.insert("rule".into(), json!(rule));
    coverage.insert("samples".into(), json!(rep.samples));
    coverage.insert("events".into(), json!(rep.events));
    coverage.insert("counters".into(), json!(rep.counters));
    coverage.insert("worst_observed".into(), json!(rep.maxima));
    let mut cfgs: Vec<&String> = rep.configs.iter().collect();
    cfgs.sort();
    coverage.insert("n_configs".into(), json!(cfgs.len()));
    coverage.insert(
        "configs".into(),
        json!(cfgs.iter().take(60).collect::<Vec<_>>()),
    );
    coverage.insert("profile".into(), json!(ctx.profile));
    coverage.insert("exhaustive".into(), json!(false));
    for (k, v) in &rep.extra {
        coverage.insert(k.clone(), v.clone());
    }
    coverage.insert(
        "known_findings_hit".into(),
        json!(known_hits
            .iter()
            .map(|(s, (w, n))| json!({"signature": s, "what": w, "count": n}))
            .collect::<Vec<_>>()),
    );
    coverage.insert("inconclusive".into(), json!(rep.inconclusive));
    coverage.insert("replays".into(), json!(replay_paths));
    let ev = json!({
        "property_id": ctx.id,
        "tier": ctx.tier.name(),
        "seed": ctx.seed,
        "level": "exploration",
        "coverage": coverage,
        "assumptions": assumptions,
        "wall_s": start.elapsed().as_secs_f64(),
        "violations": new_violations.len(),
    });
    let _ = std::fs::create_dir_all(format!("{}/evidence", verif_dir));
    std::fs::write(
        format!("{}/evidence/{}.json", verif_dir, ctx.id),
        serde_json::to_string_pretty(&ev).unwrap(),
    )
    .expect("cannot write evidence");

    let exit_code = if !new_violations.is_empty() {
        1
    } else if !rep.inconclusive.is_empty() {
        2
    } else {
        0
    };
    println!(
        "{} property={} tier={} seed={} evaluations={} distinct_nontrivial={} known_findings={} wall_s={:.1}",
        match exit_code {
            0 => "HELD",
            1 => "VIOLATED",
            _ => "INCONCLUSIVE",
        },
        ctx.id,
        ctx.tier.name(),
        ctx.seed,
        rep.evaluations,
        rep.distinct.len(),
        known_hits.len(),
        start.elapsed().as_secs_f64()
    );
    Finish { exit_code }
}
