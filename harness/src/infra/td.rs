//! Object-safe view of `TDigest<S>` so workloads can be written once for K0..K3.
use pdatastructs::tdigest::{TDigest, K0, K1, K2, K3};
use serde::{Deserialize, Serialize};

#[derive(Clone, Copy, Debug, PartialEq, Eq, Hash, Serialize, Deserialize)]
pub enum Sf {
    K0,
    K1,
    K2,
    K3,
}

pub const ALL_SF: [Sf; 4] = [Sf::K0, Sf::K1, Sf::K2, Sf::K3];

impl Sf {
    pub fn name(&self) -> &'static str {
        match self {
            Sf::K0 => "K0",
            Sf::K1 => "K1",
            Sf::K2 => "K2",
            Sf::K3 => "K3",
        }
    }
    /// maximal cluster width W of the property statement (None where the statement gives none)
    pub fn width(&self, delta: f64, n: f64) -> Option<f64> {
        match self {
            Sf::K0 => Some(2.0 / delta),
            Sf::K1 => Some(std::f64::consts::PI / delta),
            Sf::K2 => {
                if n >= delta {
                    Some(((n / delta).ln() + 6.0) / delta)
                } else {
                    None
                }
            }
            Sf::K3 => {
                if n >= delta {
                    Some((2.0 * (n / delta).ln() + 10.5) / delta)
                } else {
                    None
                }
            }
        }
    }
}

pub trait Td {
    fn insert(&mut self, x: f64);
    fn insert_weighted(&mut self, x: f64, w: f64);
    fn quantile(&self, q: f64) -> f64;
    fn cdf(&self, x: f64) -> f64;
    fn count(&self) -> f64;
    fn sum(&self) -> f64;
    fn mean(&self) -> f64;
    fn min(&self) -> f64;
    fn max(&self) -> f64;
    fn is_empty(&self) -> bool;
    fn clear(&mut self);
    fn n_centroids(&self) -> usize;
    fn centroids(&self) -> Vec<(f64, f64)>;
    fn delta(&self) -> f64;
    fn max_backlog_size(&self) -> usize;
    fn boxed_clone(&self) -> Box<dyn Td>;
}

macro_rules! td_impl {
    ($s:ty) => {
        impl Td for TDigest<$s> {
            fn insert(&mut self, x: f64) {
                crate::infra::beat();
                TDigest::insert(self, x)
            }
            fn insert_weighted(&mut self, x: f64, w: f64) {
                crate::infra::beat();
                TDigest::insert_weighted(self, x, w)
            }
            fn quantile(&self, q: f64) -> f64 {
                crate::infra::beat();
                TDigest::quantile(self, q)
            }
            fn cdf(&self, x: f64) -> f64 {
                crate::infra::beat();
                TDigest::cdf(self, x)
            }
            fn count(&self) -> f64 {
                TDigest::count(self)
            }
            fn sum(&self) -> f64 {
                TDigest::sum(self)
            }
            fn mean(&self) -> f64 {
                TDigest::mean(self)
            }
            fn min(&self) -> f64 {
                TDigest::min(self)
            }
            fn max(&self) -> f64 {
                TDigest::max(self)
            }
            fn is_empty(&self) -> bool {
                TDigest::is_empty(self)
            }
            fn clear(&mut self) {
                TDigest::clear(self)
            }
            fn n_centroids(&self) -> usize {
                TDigest::n_centroids(self)
            }
            fn centroids(&self) -> Vec<(f64, f64)> {
                self.verif_centroids()
            }
            fn delta(&self) -> f64 {
                TDigest::delta(self)
            }
            fn max_backlog_size(&self) -> usize {
                TDigest::max_backlog_size(self)
            }
            fn boxed_clone(&self) -> Box<dyn Td> {
                Box::new(self.clone())
            }
        }
    };
}

td_impl!(K0);
td_impl!(K1);
td_impl!(K2);
td_impl!(K3);

pub fn make_td(sf: Sf, delta: f64, backlog: usize) -> Box<dyn Td> {
    match sf {
        Sf::K0 => Box::new(TDigest::new(K0::new(delta), backlog)),
        Sf::K1 => Box::new(TDigest::new(K1::new(delta), backlog)),
        Sf::K2 => Box::new(TDigest::new(K2::new(delta), backlog)),
        Sf::K3 => Box::new(TDigest::new(K3::new(delta), backlog)),
    }
}

// ---------------------------------------------------------------------------------------------
// data families

#[derive(Clone, Copy, Debug, PartialEq, Eq, Hash, Serialize, Deserialize)]
pub enum Family {
    Uniform,
    Normal,
    Exponential,
    Pareto,
    Sorted,
    ReverseSorted,
    Sawtooth,
    // ties / cliffs
    Discrete10,
    Discrete3,
    PointMassNormal,
    TwoClusters,
    PointMassWideUniform,
    Constant,
    /// thousands of repeats of a few non-dyadic decimals (prices, rounded latencies)
    DecimalTies,
}

pub const SMOOTH: [Family; 7] = [
    Family::Uniform,
    Family::Normal,
    Family::Exponential,
    Family::Pareto,
    Family::Sorted,
    Family::ReverseSorted,
    Family::Sawtooth,
];
pub const TIES: [Family; 7] = [
    Family::Discrete10,
    Family::Discrete3,
    Family::PointMassNormal,
    Family::TwoClusters,
    Family::PointMassWideUniform,
    Family::Constant,
    Family::DecimalTies,
];

impl Family {
    pub fn is_smooth(&self) -> bool {
        SMOOTH.contains(self)
    }
    pub fn name(&self) -> &'static str {
        match self {
            Family::Uniform => "uniform",
            Family::Normal => "normal",
            Family::Exponential => "exponential",
            Family::Pareto => "pareto1.5",
            Family::Sorted => "sorted",
            Family::ReverseSorted => "reverse-sorted",
            Family::Sawtooth => "sawtooth",
            Family::Discrete10 => "discrete10",
            Family::Discrete3 => "discrete3",
            Family::PointMassNormal => "pointmass90+normal",
            Family::TwoClusters => "two-clusters-gap",
            Family::PointMassWideUniform => "pointmass+wide-uniform",
            Family::Constant => "constant",
            Family::DecimalTies => "decimal-ties",
        }
    }
    /// the i-th of n values (order matters for the three order families)
    pub fn gen(&self, r: &mut crate::infra::rngs::FastRng, i: usize, n: usize) -> f64 {
        match self {
            Family::Uniform => r.f64() * 100.0 - 30.0,
            Family::Normal => 5.0 + 2.0 * r.normal(),
            Family::Exponential => -(1.0 - r.f64()).ln() * 3.0,
            Family::Pareto => (1.0 - r.f64()).powf(-1.0 / 1.5),
            Family::Sorted => i as f64 * 0.25 - 7.0,
            Family::ReverseSorted => (n - i) as f64 * 0.25 - 7.0,
            Family::Sawtooth => ((i * 7919) % 1000) as f64 + (i / 1000) as f64 * 1e-3,
            Family::Discrete10 => r.below(10) as f64 * 1.5 - 4.0,
            Family::Discrete3 => [-1.0, 0.0, 250.0][r.below(3) as usize],
            Family::PointMassNormal => {
                if r.chance(0.9) {
                    3.0
                } else {
                    3.0 + r.normal()
                }
            }
            Family::TwoClusters => {
                if r.chance(0.5) {
                    r.f64()
                } else {
                    1000.0 + r.f64()
                }
            }
            Family::PointMassWideUniform => {
                if r.chance(0.5) {
                    0.0
                } else {
                    r.f64() * 2000.0 - 1000.0
                }
            }
            Family::Constant => 42.5,
            Family::DecimalTies => [19.99, 0.1, 0.3, 2.7, 0.8, 1e-3, 123.456][r.below(7) as usize],
        }
    }
}
