//! Black-box fingerprint classes (DESIGN §3.3): x ~ y iff a filter holding only x reports y.
//! Never re-implements the crate's hashing.
use crate::infra::flt::Flt;
use serde_json::{json, Value};

#[derive(Clone, Debug)]
pub struct Classes {
    pub universe: Vec<u64>,
    /// class index of universe[i]
    pub class_of: Vec<usize>,
    pub n_classes: usize,
    /// one representative key per class
    pub rep: Vec<u64>,
    /// fraction of ordered pairs (x, y), x != y, with rel(x, y)
    pub singleton_fp: f64,
}

#[derive(Debug)]
pub enum ClassErr {
    /// insert into an empty filter failed or panicked
    InsertFailed(u64),
    NotReflexive(u64),
    NotSymmetric(u64, u64),
    NotTransitive(u64, u64, u64),
    /// the relation collapsed: query over-approximates far beyond the fingerprint bound
    Collapsed { fp: f64, bound: f64 },
}

impl ClassErr {
    pub fn signature(&self) -> String {
        match self {
            ClassErr::InsertFailed(_) => "class/insert-into-empty-failed".into(),
            ClassErr::NotReflexive(_) => "class/not-reflexive".into(),
            ClassErr::NotSymmetric(..) => "class/not-symmetric".into(),
            ClassErr::NotTransitive(..) => "class/not-transitive".into(),
            ClassErr::Collapsed { .. } => "class/collapsed".into(),
        }
    }
    pub fn witness(&self) -> Value {
        match self {
            ClassErr::InsertFailed(x) => json!({"x": x}),
            ClassErr::NotReflexive(x) => json!({"x": x}),
            ClassErr::NotSymmetric(x, y) => json!({"x": x, "y": y}),
            ClassErr::NotTransitive(x, y, z) => json!({"x": x, "y": y, "z": z}),
            ClassErr::Collapsed { fp, bound } => json!({"singleton_fp": fp, "bound": bound}),
        }
    }
}

/// Discover classes over `universe`. `fp_bound` is the false-positive bound the configuration
/// states for a filter holding one element; the collapse gate fails if the measured singleton
/// false-positive fraction exceeds 8x that bound plus sampling slack.
pub fn discover<F: Flt>(
    make: &dyn Fn() -> F,
    universe: &[u64],
    fp_bound: f64,
) -> Result<Classes, ClassErr> {
    let n = universe.len();
    // rel[x] = bitset of y reported present by {x}
    let words = n.div_ceil(64);
    let mut rel: Vec<Vec<u64>> = Vec::with_capacity(n);
    for &x in universe {
        let mut f = make();
        if f.insert(x).is_err() {
            return Err(ClassErr::InsertFailed(x));
        }
        let mut row = vec![0u64; words];
        for (j, &y) in universe.iter().enumerate() {
            if f.query(y) {
                row[j / 64] |= 1 << (j % 64);
            }
        }
        rel.push(row);
    }
    let get = |i: usize, j: usize| (rel[i][j / 64] >> (j % 64)) & 1 == 1;
    for i in 0..n {
        if !get(i, i) {
            return Err(ClassErr::NotReflexive(universe[i]));
        }
    }
    // classes: rows must be identical within a class (equivalence relation <=> rel(i,j) implies row i == row j)
    let mut class_of = vec![usize::MAX; n];
    let mut rep = vec![];
    let mut pairs = 0u64;
    for i in 0..n {
        pairs += rel[i].iter().map(|w| w.count_ones() as u64).sum::<u64>() - 1;
        if class_of[i] != usize::MAX {
            continue;
        }
        let c = rep.len();
        rep.push(universe[i]);
        for j in 0..n {
            if get(i, j) {
                if !get(j, i) {
                    return Err(ClassErr::NotSymmetric(universe[i], universe[j]));
                }
                if rel[j] != rel[i] {
                    // find z
                    let z = (0..n).find(|&z| get(i, z) != get(j, z)).unwrap();
                    return Err(ClassErr::NotTransitive(universe[i], universe[j], universe[z]));
                }
                if class_of[j] != usize::MAX && class_of[j] != c {
                    return Err(ClassErr::NotTransitive(universe[i], universe[j], universe[j]));
                }
                class_of[j] = c;
            }
        }
    }
    // symmetric check for entries pointing into earlier classes
    for i in 0..n {
        for j in 0..n {
            if get(i, j) && class_of[i] != class_of[j] {
                return Err(ClassErr::NotSymmetric(universe[i], universe[j]));
            }
        }
    }
    let singleton_fp = if n > 1 {
        pairs as f64 / (n as f64 * (n as f64 - 1.0))
    } else {
        0.0
    };
    // Collapse gate. X = number of keys that joined an already existing class while the classes were
    // built. If the filter keeps the fingerprint bits it promises, a key collides with one of at
    // most n earlier keys with probability <= n * fp_bound, so X is stochastically below
    // Bin(n, 8 * n * fp_bound) (factor 8 of head-room). The gate fires only if the observed X has a
    // tail probability below 1e-12 under that generous model: thousands of discoveries per run with
    // tiny universes must not trip it by chance (a class of 4 among 15 keys at fp_bound = 0.002 does
    // happen, about once in 10^4 discoveries).
    let joined = (n - rep.len()) as u64;
    let p_join = (8.0 * n as f64 * fp_bound).min(1.0);
    if fp_bound < 1.0 && p_join < 1.0 && crate::infra::stats::binom_tail_ge(joined, n as u64, p_join) < 1e-12 {
        return Err(ClassErr::Collapsed {
            fp: singleton_fp,
            bound: fp_bound,
        });
    }
    Ok(Classes {
        universe: universe.to_vec(),
        n_classes: rep.len(),
        class_of,
        rep,
        singleton_fp,
    })
}
