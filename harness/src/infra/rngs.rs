//! Harness-controlled RNGs (DESIGN §3.2).
use crate::infra::hashers::mix64;
use rand::{Error, RngCore, SeedableRng};
use rand_chacha::ChaChaRng;
use std::cell::Cell;
use std::rc::Rc;

/// xoshiro256**
#[derive(Clone, Debug)]
pub struct FastRng {
    s: [u64; 4],
}

impl FastRng {
    pub fn new(seed: u64) -> Self {
        let mut z = seed;
        let mut s = [0u64; 4];
        for x in s.iter_mut() {
            z = z.wrapping_add(0x9E37_79B9_7F4A_7C15);
            *x = mix64(z);
        }
        if s == [0; 4] {
            s[0] = 1;
        }
        Self { s }
    }
    #[inline]
    pub fn next(&mut self) -> u64 {
        let result = self.s[1].wrapping_mul(5).rotate_left(7).wrapping_mul(9);
        let t = self.s[1] << 17;
        self.s[2] ^= self.s[0];
        self.s[3] ^= self.s[1];
        self.s[1] ^= self.s[2];
        self.s[0] ^= self.s[3];
        self.s[2] ^= t;
        self.s[3] = self.s[3].rotate_left(45);
        result
    }
    /// uniform in 0..n (n > 0), unbiased via widening multiply + rejection
    #[inline]
    pub fn below(&mut self, n: u64) -> u64 {
        debug_assert!(n > 0);
        loop {
            let v = self.next();
            let m = (v as u128) * (n as u128);
            let lo = m as u64;
            if lo >= n.wrapping_neg() % n {
                return (m >> 64) as u64;
            }
        }
    }
    #[inline]
    pub fn f64(&mut self) -> f64 {
        (self.next() >> 11) as f64 * (1.0 / (1u64 << 53) as f64)
    }
    #[inline]
    pub fn chance(&mut self, p: f64) -> bool {
        self.f64() < p
    }
    pub fn pick<'a, T>(&mut self, xs: &'a [T]) -> &'a T {
        &xs[self.below(xs.len() as u64) as usize]
    }
    /// standard normal (Box-Muller)
    pub fn normal(&mut self) -> f64 {
        let u1 = 1.0 - self.f64();
        let u2 = self.f64();
        (-2.0 * u1.ln()).sqrt() * (2.0 * std::f64::consts::PI * u2).cos()
    }
    pub fn shuffle<T>(&mut self, xs: &mut [T]) {
        for i in (1..xs.len()).rev() {
            let j = self.below(i as u64 + 1) as usize;
            xs.swap(i, j);
        }
    }
}

/// derive an independent sub-seed
pub fn sub_seed(seed: u64, parts: &[u64]) -> u64 {
    let mut z = mix64(seed ^ 0x1234_5678_9ABC_DEF0);
    for p in parts {
        z = mix64(z ^ mix64(*p).rotate_left(17));
    }
    z
}

pub fn str_seed(s: &str) -> u64 {
    let mut z = 0xcbf2_9ce4_8422_2325u64;
    for b in s.bytes() {
        z = (z ^ b as u64).wrapping_mul(0x100_0000_01b3);
    }
    mix64(z)
}

#[derive(Clone, Debug)]
pub enum CtlRng {
    Fast(FastRng),
    /// FastRng whose 64-bit words are replaced with probability `p` by extreme words
    Hostile {
        inner: FastRng,
        p: f64,
        prev: u64,
    },
    /// output = pure function of (seed, shared counter); the harness can rewind the counter
    Counter {
        seed: u64,
        ctr: Rc<Cell<u64>>,
    },
    ChaCha(Box<ChaChaRng>),
    /// replay the scripted words first, then continue with FastRng
    Script {
        words: Rc<Vec<u64>>,
        pos: usize,
        tail: FastRng,
    },
}

impl CtlRng {
    pub fn fast(seed: u64) -> Self {
        CtlRng::Fast(FastRng::new(seed))
    }
    pub fn hostile(seed: u64, p: f64) -> Self {
        CtlRng::Hostile {
            inner: FastRng::new(seed),
            p,
            prev: 0,
        }
    }
    pub fn counter(seed: u64) -> (Self, Rc<Cell<u64>>) {
        let ctr = Rc::new(Cell::new(0));
        (
            CtlRng::Counter {
                seed,
                ctr: Rc::clone(&ctr),
            },
            ctr,
        )
    }
    pub fn chacha(seed: u64) -> Self {
        CtlRng::ChaCha(Box::new(ChaChaRng::seed_from_u64(seed)))
    }
    pub fn script(words: Vec<u64>, seed: u64) -> Self {
        CtlRng::Script {
            words: Rc::new(words),
            pos: 0,
            tail: FastRng::new(seed),
        }
    }
    pub fn name(&self) -> &'static str {
        match self {
            CtlRng::Fast(_) => "fast",
            CtlRng::Hostile { .. } => "hostile",
            CtlRng::Counter { .. } => "counter",
            CtlRng::ChaCha(_) => "chacha",
            CtlRng::Script { .. } => "script",
        }
    }
}

impl RngCore for CtlRng {
    fn next_u32(&mut self) -> u32 {
        (self.next_u64() >> 32) as u32
    }

    fn next_u64(&mut self) -> u64 {
        match self {
            CtlRng::Fast(r) => r.next(),
            CtlRng::Hostile { inner, p, prev } => {
                let v = inner.next();
                let out = if inner.f64() < *p {
                    match inner.below(6) {
                        0 => 0,
                        1 => u64::MAX,
                        2 => 1,
                        3 => *prev,
                        4 => u64::MAX << 32,
                        _ => u32::MAX as u64,
                    }
                } else {
                    v
                };
                *prev = out;
                out
            }
            CtlRng::Counter { seed, ctr } => {
                let c = ctr.get();
                ctr.set(c + 1);
                mix64(*seed ^ mix64(c))
            }
            CtlRng::ChaCha(r) => r.next_u64(),
            CtlRng::Script { words, pos, tail } => {
                if *pos < words.len() {
                    *pos += 1;
                    words[*pos - 1]
                } else {
                    tail.next()
                }
            }
        }
    }

    fn fill_bytes(&mut self, dest: &mut [u8]) {
        for chunk in dest.chunks_mut(8) {
            let w = self.next_u64().to_le_bytes();
            chunk.copy_from_slice(&w[..chunk.len()]);
        }
    }

    fn try_fill_bytes(&mut self, dest: &mut [u8]) -> Result<(), Error> {
        self.fill_bytes(dest);
        Ok(())
    }
}

#[cfg(test)]
mod tests {
    use super::*;
    use rand::Rng;

    #[test]
    fn below_is_uniform() {
        let mut r = FastRng::new(7);
        let mut c = [0u32; 7];
        for _ in 0..70000 {
            c[r.below(7) as usize] += 1;
        }
        for x in c {
            assert!((9500..10500).contains(&x));
        }
    }

    #[test]
    fn hostile_terminates_in_gen_range() {
        let mut r = CtlRng::hostile(3, 0.95);
        for n in 1..200usize {
            let v: usize = r.gen_range(0..n);
            assert!(v < n);
            let f: f64 = r.gen_range((0.)..1.);
            assert!((0. ..1.).contains(&f));
        }
    }

    #[test]
    fn counter_rewinds() {
        let (mut r, ctr) = CtlRng::counter(5);
        let a: Vec<u64> = (0..10).map(|_| r.next_u64()).collect();
        ctr.set(0);
        let b: Vec<u64> = (0..10).map(|_| r.next_u64()).collect();
        assert_eq!(a, b);
    }
}
