//! Counting global allocator (DESIGN §3.5): thread-local live / peak byte counters of requested
//! sizes. Keeps no addresses and allocates nothing itself, so it hides nothing from leak tools.
use std::alloc::{GlobalAlloc, Layout, System};
use std::cell::Cell;

pub struct CountingAlloc;

thread_local! {
    static LIVE: Cell<isize> = const { Cell::new(0) };
    static PEAK: Cell<isize> = const { Cell::new(0) };
    static ALLOCS: Cell<u64> = const { Cell::new(0) };
}

#[inline]
fn add(n: isize) {
    // try_with: TLS may be gone during thread teardown
    let _ = LIVE.try_with(|l| {
        let v = l.get() + n;
        l.set(v);
        if n > 0 {
            let _ = ALLOCS.try_with(|a| a.set(a.get() + 1));
            let _ = PEAK.try_with(|p| {
                if v > p.get() {
                    p.set(v)
                }
            });
        }
    });
}

unsafe impl GlobalAlloc for CountingAlloc {
    unsafe fn alloc(&self, layout: Layout) -> *mut u8 {
        let p = System.alloc(layout);
        if !p.is_null() {
            add(layout.size() as isize);
        }
        p
    }
    unsafe fn alloc_zeroed(&self, layout: Layout) -> *mut u8 {
        let p = System.alloc_zeroed(layout);
        if !p.is_null() {
            add(layout.size() as isize);
        }
        p
    }
    unsafe fn dealloc(&self, ptr: *mut u8, layout: Layout) {
        System.dealloc(ptr, layout);
        add(-(layout.size() as isize));
    }
    unsafe fn realloc(&self, ptr: *mut u8, layout: Layout, new_size: usize) -> *mut u8 {
        let p = System.realloc(ptr, layout, new_size);
        if !p.is_null() {
            add(-(layout.size() as isize));
            add(new_size as isize);
        }
        p
    }
}

/// live bytes allocated by the current thread (and not yet freed by it)
pub fn live() -> isize {
    LIVE.with(|l| l.get())
}

pub fn peak() -> isize {
    PEAK.with(|p| p.get())
}

pub fn reset_peak() {
    let l = live();
    PEAK.with(|p| p.set(l));
}

pub fn n_allocs() -> u64 {
    ALLOCS.with(|a| a.get())
}
