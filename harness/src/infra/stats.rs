//! Statistical decision helpers (DESIGN §3.4).

pub fn mean(xs: &[f64]) -> f64 {
    if xs.is_empty() {
        return 0.0;
    }
    xs.iter().sum::<f64>() / xs.len() as f64
}

/// sample standard deviation
pub fn sd(xs: &[f64]) -> f64 {
    if xs.len() < 2 {
        return 0.0;
    }
    let m = mean(xs);
    (xs.iter().map(|x| (x - m) * (x - m)).sum::<f64>() / (xs.len() as f64 - 1.0)).sqrt()
}

/// standard error of the mean
pub fn se(xs: &[f64]) -> f64 {
    if xs.is_empty() {
        return 0.0;
    }
    sd(xs) / (xs.len() as f64).sqrt()
}

/// z-score of an observed binomial count
pub fn binom_z(obs: u64, trials: u64, p0: f64) -> f64 {
    let t = trials as f64;
    let var = t * p0 * (1.0 - p0);
    if var <= 0.0 {
        return if (obs as f64 - t * p0).abs() < 0.5 {
            0.0
        } else {
            f64::INFINITY * (obs as f64 - t * p0).signum()
        };
    }
    (obs as f64 - t * p0) / var.sqrt()
}

pub fn ln_gamma(x: f64) -> f64 {
    // Lanczos approximation (g = 7, n = 9)
    const C: [f64; 9] = [
        0.999_999_999_999_809_9,
        676.520_368_121_885_1,
        -1_259.139_216_722_402_8,
        771.323_428_777_653_1,
        -176.615_029_162_140_6,
        12.507_343_278_686_905,
        -0.138_571_095_265_720_12,
        9.984_369_578_019_572e-6,
        1.505_632_735_149_311_6e-7,
    ];
    if x < 0.5 {
        (std::f64::consts::PI / (std::f64::consts::PI * x).sin()).ln() - ln_gamma(1.0 - x)
    } else {
        let x = x - 1.0;
        let mut a = C[0];
        let t = x + 7.5;
        for (i, c) in C.iter().enumerate().skip(1) {
            a += c / (x + i as f64);
        }
        0.5 * (2.0 * std::f64::consts::PI).ln() + (x + 0.5) * t.ln() - t + a.ln()
    }
}

fn ln_binom_pmf(k: u64, n: u64, p: f64) -> f64 {
    if p <= 0.0 {
        return if k == 0 { 0.0 } else { f64::NEG_INFINITY };
    }
    if p >= 1.0 {
        return if k == n { 0.0 } else { f64::NEG_INFINITY };
    }
    ln_gamma(n as f64 + 1.0) - ln_gamma(k as f64 + 1.0) - ln_gamma((n - k) as f64 + 1.0)
        + k as f64 * p.ln()
        + (n - k) as f64 * (1.0 - p).ln()
}

/// P[X >= k] for X ~ Bin(n, p), exact summation (for small expected counts)
pub fn binom_tail_ge(k: u64, n: u64, p: f64) -> f64 {
    if k == 0 {
        return 1.0;
    }
    if k > n {
        return 0.0;
    }
    let mut s = 0.0;
    let mut i = k;
    let mut last = f64::NEG_INFINITY;
    while i <= n {
        let l = ln_binom_pmf(i, n, p);
        s += l.exp();
        if l < last && l < -80.0 {
            break;
        }
        last = l;
        i += 1;
    }
    s.min(1.0)
}

/// P[X <= k]
pub fn binom_tail_le(k: u64, n: u64, p: f64) -> f64 {
    if k >= n {
        return 1.0;
    }
    let mut s = 0.0;
    let mut i = k as i64;
    let mut last = f64::NEG_INFINITY;
    while i >= 0 {
        let l = ln_binom_pmf(i as u64, n, p);
        s += l.exp();
        if l < last && l < -80.0 {
            break;
        }
        last = l;
        i -= 1;
    }
    s.min(1.0)
}

/// Error-free transformation: double-double accumulation for reference sums
#[derive(Clone, Copy, Debug, Default)]
pub struct DD {
    pub hi: f64,
    pub lo: f64,
}

impl DD {
    pub fn add(&mut self, x: f64) {
        let s = self.hi + x;
        let bb = s - self.hi;
        let err = (self.hi - (s - bb)) + (x - bb);
        self.hi = s;
        self.lo += err;
    }
    /// add the exact product a*b
    pub fn add_prod(&mut self, a: f64, b: f64) {
        let p = a * b;
        let e = a.mul_add(b, -p);
        self.add(p);
        self.lo += e;
    }
    pub fn value(&self) -> f64 {
        self.hi + self.lo
    }
}

#[cfg(test)]
mod tests {
    use super::*;
    #[test]
    fn gamma_ok() {
        assert!((ln_gamma(5.0) - 24f64.ln()).abs() < 1e-10);
        assert!((ln_gamma(1.0)).abs() < 1e-10);
    }
    #[test]
    fn tails() {
        // Bin(10, .5): P[X>=8] = 56/1024
        assert!((binom_tail_ge(8, 10, 0.5) - 56.0 / 1024.0).abs() < 1e-9);
        assert!((binom_tail_le(2, 10, 0.5) - 56.0 / 1024.0).abs() < 1e-9);
    }
}
