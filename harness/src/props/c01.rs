//! C01 — filters never report a false negative.
//!
//! Oracle: shadow multiset net[x] (reset by clear); after EVERY operation every x with
//! net[x] >= 1 must be reported present. Failed inserts / unions leave the shadow untouched.
use crate::infra::flt::*;
use crate::infra::hashers::HMode;
use crate::infra::rngs::FastRng;
use crate::infra::*;
use crate::props::common::*;
use serde_json::{json, Value};
use std::collections::{BTreeMap, HashSet};

pub const RULE: &str = "random + crafted histories of insert/delete(cuckoo)/union/clear per (filter kind, configuration, hasher, eviction RNG, kick budget); after every operation all keys with net inserts >= 1 are queried; plus long histories on tables of 2^11..2^14 slots / 10^6 bits with sampled sweeps; union operands of the cuckoo filter have had elements deleted again in half of the cases (holes in buckets); unions of differently configured filters must panic (as documented) or keep every element of both operands. A history is non-trivial if it contained at least one of: eviction, quotient-filter shift, Full error, union; distinct = distinct (config, op-sequence) hashes";
pub const ASSUMPTIONS: &[&str] = &[
    "harness hashers/RNGs behave as specified (unit-tested)",
    "cuckoo deletes are only issued for keys with net inserts >= 1, as the property demands",
];

#[derive(Clone, Debug)]
enum Op {
    Insert(u64),
    Delete(u64),
    Clear,
    /// union with a filter built from these inserts
    Union(Vec<u64>),
}

fn op_json(o: &Op) -> Value {
    match o {
        Op::Insert(k) => json!({"insert": k}),
        Op::Delete(k) => json!({"delete": k}),
        Op::Clear => json!("clear"),
        Op::Union(ks) => json!({"union_with_inserts": ks}),
    }
}

struct Outcome {
    nontrivial: bool,
    ops: usize,
    sweeps: u64,
}

#[allow(clippy::too_many_arguments)]
fn run_history<F: Flt>(
    label: &str,
    make: &dyn Fn() -> F,
    universe: &[u64],
    capacity: usize,
    r: &mut FastRng,
    max_ops: usize,
    kick_budget: Option<usize>,
    rep: &mut Report,
) -> Outcome {
    pdatastructs::verif::set_kick_budget(kick_budget);
    let snap0 = pdatastructs::verif::snapshot();
    let mut f = make();
    let has_delete = f.has_delete();
    let mut net: BTreeMap<u64, u64> = BTreeMap::new();
    let mut hist: Vec<Op> = Vec::new();
    let mut nontrivial = false;
    let mut sweeps = 0u64;
    let n_ops = 1 + r.below(max_ops as u64) as usize;
    let clone_at = if r.chance(0.2) { Some(r.below(n_ops as u64) as usize) } else { None };
    let p_del = if has_delete { 0.25 } else { 0.0 };
    let mut case = CaseHash::new(label);
    for step in 0..n_ops {
        let x = r.f64();
        let op = if x < 0.01 {
            Op::Clear
        } else if x < 0.06 {
            let n = r.below((capacity as u64 / 2).max(2) + 1) as usize;
            Op::Union((0..n).map(|_| *r.pick(universe)).collect())
        } else if x < 0.06 + p_del && !net.is_empty() {
            let i = r.below(net.len() as u64) as usize;
            Op::Delete(*net.keys().nth(i).unwrap())
        } else {
            Op::Insert(*r.pick(universe))
        };
        hist.push(op.clone());
        if clone_at == Some(step) {
            if let Some(c) = f.try_clone() {
                f = c; // continue on a clone
            }
        }
        let res: Result<String, String> = guarded(|| match &op {
            Op::Insert(k) => {
                case.push(*k);
                match f.insert(*k) {
                    Ok(_) => {
                        *net.entry(*k).or_insert(0) += 1;
                        "ok".to_string()
                    }
                    Err(()) => "full".to_string(),
                }
            }
            Op::Delete(k) => {
                case.push(!*k);
                if f.delete(*k) == Some(true) {
                    let e = net.get_mut(k).unwrap();
                    *e -= 1;
                    if *e == 0 {
                        net.remove(k);
                    }
                    "deleted".to_string()
                } else {
                    "delete-returned-false".to_string()
                }
            }
            Op::Clear => {
                case.push(0xC1EA);
                f.clear();
                net.clear();
                "ok".to_string()
            }
            Op::Union(ks) => {
                case.push(0x0410 ^ ks.len() as u64);
                let mut o = make();
                let mut onet: BTreeMap<u64, u64> = BTreeMap::new();
                for k in ks {
                    case.push(*k);
                    if o.insert(*k).is_ok() {
                        *onet.entry(*k).or_insert(0) += 1;
                    }
                }
                // where the filter can delete, about a third of the operand's elements are deleted
                // again before the union: the operand then has free slots in front of occupied ones
                if o.has_delete() && ks.len() >= 2 && ks[0] % 2 == 0 {
                    for k in ks {
                        if (k.wrapping_mul(0x9E37_79B9_7F4A_7C15) >> 11) % 3 == 0 && onet.get(k).copied().unwrap_or(0) > 0 && Flt::delete(&mut o, *k) == Some(true) {
                            *onet.get_mut(k).unwrap() -= 1;
                        }
                    }
                    onet.retain(|_, c| *c > 0);
                }
                match f.union(&o) {
                    Ok(()) => {
                        for (k, c) in onet {
                            *net.entry(k).or_insert(0) += c;
                        }
                        "ok".to_string()
                    }
                    Err(()) => "full".to_string(),
                }
            }
        });
        let outcome = match res {
            Ok(s) => s,
            Err(msg) => {
                rep.violation(
                    format!("C01/panic/{}/{}", f.kind(), panic_class(&msg)),
                    format!("{}: operation panicked: {}", label, msg),
                    json!({"config": label, "kick_budget": kick_budget, "history": hist.iter().map(op_json).collect::<Vec<_>>(), "step": step}),
                );
                break;
            }
        };
        if outcome == "full" || matches!(op, Op::Union(_)) {
            nontrivial = true;
        }
        if outcome == "delete-returned-false" {
            rep.count("delete_returned_false_for_inserted_key(C14 business)", 1);
        }
        // sweep: no false negatives
        let mut missing = None;
        let sw = guarded(|| {
            for k in net.keys() {
                sweeps += 1;
                if !f.query(*k) {
                    missing = Some(*k);
                    break;
                }
            }
        });
        if let Err(msg) = sw {
            rep.violation(
                format!("C01/panic-in-query/{}/{}", f.kind(), panic_class(&msg)),
                format!("{}: query panicked: {}", label, msg),
                json!({"config": label, "history": hist.iter().map(op_json).collect::<Vec<_>>(), "step": step}),
            );
            break;
        }
        if let Some(k) = missing {
            let after = match &op {
                Op::Insert(_) => {
                    if outcome == "full" {
                        "failed-insert"
                    } else {
                        "insert"
                    }
                }
                Op::Delete(_) => "delete",
                Op::Clear => "clear",
                Op::Union(_) => {
                    if outcome == "full" {
                        "failed-union"
                    } else {
                        "union"
                    }
                }
            };
            rep.violation(
                format!("C01/false-negative/{}/after-{}", f.kind(), after),
                format!(
                    "{}: key {} has net inserts {} but query() is false after step {} ({})",
                    label, k, net[&k], step, after
                ),
                json!({"config": label, "kick_budget": kick_budget, "missing_key": k,
                       "history": hist.iter().map(op_json).collect::<Vec<_>>(), "step": step, "state": f.dump()}),
            );
            break;
        }
    }
    pdatastructs::verif::set_kick_budget(None);
    let snap = pdatastructs::verif::snapshot();
    let ev = |e: Event| snap[e as usize] - snap0[e as usize];
    if ev(Event::CuckooKick) > 0 || ev(Event::QfShiftStep) > 0 {
        nontrivial = true;
    }
    if nontrivial {
        rep.nontrivial(case.0);
    }
    if rep.want_sample() && nontrivial && hist.len() <= 12 {
        rep.sample(json!({"config": label, "kick_budget": kick_budget, "history": hist.iter().map(op_json).collect::<Vec<_>>()}));
    }
    Outcome {
        nontrivial,
        ops: hist.len(),
        sweeps,
    }
}

/// `union` documents a panic for operands with different parameters. If an implementation accepts
/// such a pair instead (returns Ok), the no-false-negative clause still binds it.
fn mismatched_unions(ctx: &Ctx, i: usize, rep: &mut Report) {
    use crate::infra::hashers::CtlBuildHasher;
    let mut r = FastRng::new(ctx.sub_seed(&[0xBAD0, i as u64]));
    let keys_a: Vec<u64> = (0..40).map(|_| r.next()).collect();
    let keys_b: Vec<u64> = (0..40).map(|_| r.next()).collect();
    let bh = CtlBuildHasher::mix(r.next());
    let mut run = |label: String, mk_a: &dyn Fn() -> Box<dyn FnMut(u64, u8) -> Option<bool>>| {
        let _ = (label, mk_a);
    };
    let _ = &mut run;
    macro_rules! pair {
        ($label:expr, $a:expr, $b:expr) => {{
            rep.evaluations += 1;
            let label: String = $label;
            let res = guarded(|| -> Option<u64> {
                let mut a = $a;
                let mut b = $b;
                for k in &keys_a {
                    let _ = a.insert(*k);
                }
                for k in &keys_b {
                    let _ = b.insert(*k);
                }
                let in_a: Vec<u64> = keys_a.iter().copied().filter(|k| a.query(*k)).collect();
                let in_b: Vec<u64> = keys_b.iter().copied().filter(|k| b.query(*k)).collect();
                match guarded(|| a.union(&b)) {
                    Err(_) => None, // documented panic
                    Ok(Err(())) => in_a.iter().find(|k| !a.query(**k)).copied(),
                    Ok(Ok(())) => in_a.iter().chain(in_b.iter()).find(|k| !a.query(**k)).copied(),
                }
            });
            match res {
                Ok(None) => rep.count("mismatched_union_pairs", 1),
                Ok(Some(k)) => rep.violation(
                    "C01/false-negative/union-of-mismatched-filters-accepted",
                    format!("{}: union of two differently configured filters returned without panicking and key {} of an operand is not reported present afterwards", label, k),
                    json!({"pair": label, "missing_key": k}),
                ),
                Err(msg) => rep.violation(format!("C01/panic/{}", panic_class(&msg)), format!("{}: {}", label, msg), json!({"pair": label})),
            }
        }};
    }
    // Extend is a loop of insert(): the extended filter must not lose any element
    rep.evaluations += 1;
    let res = guarded(|| -> Option<u64> {
        use pdatastructs::filters::bloomfilter::BloomFilter;
        use pdatastructs::filters::Filter;
        let mut a: BloomFilter<u64> = BloomFilter::with_params(4096, 5);
        a.extend(keys_a.iter().copied().filter(|k| k % 3 != 0));
        keys_a.iter().copied().filter(|k| k % 3 != 0).find(|k| !a.query(k))
    });
    match res {
        Ok(None) => {}
        Ok(Some(k)) => rep.violation("C01/false-negative/bloom/after-extend", format!("key {} was fed through Extend::extend but is not reported present", k), json!({"missing_key": k})),
        Err(msg) => rep.violation(format!("C01/panic/{}", panic_class(&msg)), msg, json!({})),
    }
    let m = *r.pick(&[64usize, 1000, 65_536]);
    for (k1, k2) in [(7usize, 2usize), (2, 7), (3, 4), (12, 1)] {
        pair!(format!("bloom(m={},k={}) u bloom(m={},k={})", m, k1, m, k2), BloomCfg { m, k: k1, bh }.make(), BloomCfg { m, k: k2, bh }.make());
    }
    pair!(format!("bloom(m={},k=3) u bloom(m={},k=3)", m, m * 2), BloomCfg { m, k: 3, bh }.make(), BloomCfg { m: m * 2, k: 3, bh }.make());
    pair!("bloom hasher mismatch".to_string(), BloomCfg { m, k: 3, bh }.make(), BloomCfg { m, k: 3, bh: CtlBuildHasher::mix(bh.seed ^ 1) }.make());
    let cc = |b: usize, n: usize, l: usize, h: CtlBuildHasher| CuckooCfg { bucketsize: b, n_buckets: n, l, bh: h, rng: RngSpec::Fast(1) };
    pair!("cuckoo l mismatch".to_string(), cc(4, 32, 16, bh).make(), cc(4, 32, 8, bh).make());
    pair!("cuckoo l mismatch (wide)".to_string(), cc(4, 32, 40, bh).make(), cc(4, 32, 33, bh).make());
    pair!("cuckoo n_buckets mismatch".to_string(), cc(4, 32, 16, bh).make(), cc(4, 16, 16, bh).make());
    pair!("cuckoo bucketsize mismatch".to_string(), cc(4, 32, 16, bh).make(), cc(2, 32, 16, bh).make());
    pair!("cuckoo hasher mismatch".to_string(), cc(4, 32, 16, bh).make(), cc(4, 32, 16, CtlBuildHasher::mix(bh.seed ^ 1)).make());
    pair!("qf q mismatch".to_string(), QfCfg { q: 7, r: 8, bh }.make(), QfCfg { q: 6, r: 8, bh }.make());
    pair!("qf r mismatch".to_string(), QfCfg { q: 7, r: 8, bh }.make(), QfCfg { q: 7, r: 9, bh }.make());
    pair!("qf hasher mismatch".to_string(), QfCfg { q: 7, r: 8, bh }.make(), QfCfg { q: 7, r: 8, bh: CtlBuildHasher::mix(bh.seed ^ 1) }.make());
}

/// Large tables (thousands of slots): long insert/delete/union histories, the shadow multiset is
/// swept on a sample of the live keys every few hundred operations and completely at the end.
fn large_tables(ctx: &Ctx, i: usize, rep: &mut Report) {
    use crate::infra::hashers::CtlBuildHasher;
    let mut r = FastRng::new(ctx.sub_seed(&[0x1A26E, i as u64]));
    let bh = CtlBuildHasher::new(if r.chance(0.5) { HMode::Mix } else { HMode::Sip }, r.next());
    macro_rules! drive {
        ($label:expr, $make:expr, $cap:expr, $has_delete:expr) => {{
            let label: String = $label;
            rep.config(&label);
            let cap: usize = $cap;
            let res = guarded(|| -> Option<(String, u64)> {
                let mut f = $make;
                let mut live: Vec<u64> = vec![];
                let n_ops = cap + cap / 4 + 200;
                for step in 0..n_ops {
                    beat();
                    let x = r.f64();
                    if x < 0.02 && !live.is_empty() {
                        // union with a filter holding 50 fresh keys
                        let mut o = $make;
                        let ks: Vec<u64> = (0..50).map(|_| r.next()).collect();
                        let ok: Vec<u64> = ks.iter().copied().filter(|k| o.insert(*k).is_ok()).collect();
                        if f.union(&o).is_ok() {
                            live.extend(ok);
                        }
                    } else if x < 0.15 && $has_delete && !live.is_empty() {
                        let j = r.below(live.len() as u64) as usize;
                        let k = live.swap_remove(j);
                        if Flt::delete(&mut f, k) != Some(true) {
                            live.push(k); // not C01's business; keep it as expected-present
                        }
                    } else {
                        let k = r.next();
                        if f.insert(k).is_ok() {
                            live.push(k);
                        }
                    }
                    if step % 400 == 399 || step + 1 == n_ops {
                        let full = step + 1 == n_ops;
                        let m = if full { live.len() } else { live.len().min(300) };
                        for t in 0..m {
                            let k = if full { live[t] } else { live[r.below(live.len() as u64) as usize] };
                            if !f.query(k) {
                                return Some((format!("step {}", step), k));
                            }
                        }
                    }
                }
                rep.evaluations += n_ops as u64;
                None
            });
            match res {
                Ok(None) => {
                    rep.count("large_table_histories", 1);
                    let mut h = CaseHash::new(&label);
                    h.push(i as u64);
                    rep.nontrivial(h.0);
                }
                Ok(Some((at, k))) => rep.violation(
                    format!("C01/false-negative/{}/large-table", label.split('(').next().unwrap_or("?")),
                    format!("{}: key {} has net inserts >= 1 but query() is false ({})", label, k, at),
                    json!({"config": label, "missing_key": k, "at": at}),
                ),
                Err(msg) => rep.violation(format!("C01/panic/{}", panic_class(&msg)), format!("{}: {}", label, msg), json!({"config": label})),
            }
        }};
    }
    match i % 3 {
        0 => {
            let cfg = CuckooCfg { bucketsize: *r.pick(&[2usize, 4]), n_buckets: *r.pick(&[1024usize, 4096]), l: *r.pick(&[8usize, 12, 33]), bh, rng: pick_rng(&mut r) };
            drive!(cfg.label(), cfg.make(), cfg.slots(), true);
        }
        1 => {
            let cfg = QfCfg { q: *r.pick(&[11usize, 13, 14]), r: *r.pick(&[3usize, 9, 40]), bh };
            drive!(cfg.label(), cfg.make(), cfg.slots(), false);
        }
        _ => {
            let cfg = BloomCfg { m: *r.pick(&[65_536usize, 1_000_003]), k: *r.pick(&[1usize, 7, 13]), bh };
            drive!(cfg.label(), cfg.make(), cfg.m / cfg.k / 2, false);
        }
    }
}

pub fn run(ctx: &Ctx) -> Report {
    let dbg = ctx.is_dbg();
    let n_items = match (ctx.tier, dbg) {
        (Tier::Quick, false) => 6000,
        (Tier::Thorough, false) => 150_000,
        (Tier::Quick, true) => 400,
        (Tier::Thorough, true) => 6000,
    };
    let mut rep = par_run(ctx, n_items, |i, rep| {
        let mut r = FastRng::new(ctx.sub_seed(&[i as u64, if dbg { 1 } else { 0 }]));
        if i % 97 == 0 {
            mismatched_unions(ctx, i, rep);
        }
        if i % 200 == 11 && !dbg {
            large_tables(ctx, i, rep);
        }
        let kind = i % 8;
        let hists = 12;
        match kind {
            0 => {
                let cfg = pick_bloom(&mut r);
                let label = cfg.label();
                rep.config(&label);
                let usz = 8 + r.below(200) as usize;
                let u: Vec<u64> = (0..usz).map(|_| r.next()).collect();
                for h in 0..hists {
                    let c = cfg.clone();
                    let o = if h % 4 == 3 && !matches!(cfg.bh.mode, HMode::Identity | HMode::Layout) {
                        run_history(&format!("{}/str", label), &|| c.make_str(), &u, cfg.m.min(64), &mut r, 60, None, rep)
                    } else {
                        run_history(&label, &|| c.make(), &u, cfg.m.min(64), &mut r, 60, None, rep)
                    };
                    rep.evaluations += o.ops as u64;
                    rep.count("sweep_queries", o.sweeps);
                    rep.count("histories", 1);
                }
            }
            1 | 2 | 3 => {
                let big = r.chance(0.1);
                let cfg = pick_cuckoo(&mut r, if big { 512 } else { 64 });
                let label = cfg.label();
                rep.config(&label);
                let cap = cfg.slots();
                let usz = (cap * (1 + r.below(4) as usize)).clamp(4, 600);
                let u = cuckoo_universe(&cfg, &mut r, usz);
                for h in 0..hists {
                    let kb = match r.below(8) {
                        0 => Some(0),
                        1 => Some(1),
                        2 => Some(3),
                        3 => Some(20),
                        _ => None,
                    };
                    let mut c = cfg.clone();
                    c.rng = pick_rng(&mut r);
                    let max_ops = (cap * 4).clamp(8, 400);
                    let o = if kind == 3 && h % 4 == 0 && cfg.bh.mode != HMode::Layout {
                        run_history(&format!("{}/str", label), &|| c.make_str(), &u, cap, &mut r, max_ops, kb, rep)
                    } else {
                        run_history(&label, &|| c.make(), &u, cap, &mut r, max_ops, kb, rep)
                    };
                    rep.evaluations += o.ops as u64;
                    rep.count("sweep_queries", o.sweeps);
                    rep.count("histories", 1);
                    if o.nontrivial {
                        rep.count("histories_nontrivial", 1);
                    }
                }
            }
            4 | 5 | 6 => {
                let big = r.chance(0.15);
                let mut cfg = pick_qf(&mut r, if big { 9 } else { 5 });
                if kind == 4 {
                    cfg.bh = crate::infra::hashers::CtlBuildHasher::identity();
                }
                let label = cfg.label();
                rep.config(&label);
                let cap = cfg.slots();
                let usz = (cap * (1 + r.below(3) as usize)).clamp(4, 800);
                let u = qf_universe(&cfg, &mut r, usz);
                if u.is_empty() {
                    return;
                }
                for h in 0..hists {
                    let c = cfg.clone();
                    let max_ops = (cap * 3).clamp(8, 600);
                    let o = if kind == 6 && h % 4 == 0 && cfg.bh.mode != HMode::Identity {
                        run_history(&format!("{}/str", label), &|| c.make_str(), &u, cap, &mut r, max_ops, None, rep)
                    } else {
                        run_history(&label, &|| c.make(), &u, cap, &mut r, max_ops, None, rep)
                    };
                    rep.evaluations += o.ops as u64;
                    rep.count("sweep_queries", o.sweeps);
                    rep.count("histories", 1);
                    if o.nontrivial {
                        rep.count("histories_nontrivial", 1);
                    }
                }
            }
            _ => {
                // HashSet reference implementation of Filter
                let label = "hashset".to_string();
                rep.config(&label);
                let u: Vec<u64> = (0..50).map(|_| r.next()).collect();
                for _ in 0..3 {
                    let o = run_history(&label, &HashSet::<u64>::new, &u, 32, &mut r, 60, None, rep);
                    rep.evaluations += o.ops as u64;
                    rep.count("sweep_queries", o.sweeps);
                    rep.count("histories", 1);
                }
            }
        }
    });
    rep.require_events(&[
        "CuckooKick",
        "CuckooInsertFailed",
        "CuckooRollback",
        "CuckooDeleteSecond",
        "QfShiftStep",
        "QfFull",
        "QfWrapIncr",
        "QfUnionCluster",
        "CuckooUnionTransferred",
    ]);
    rep
}
