//! C04 — T-Digest rank accuracy and bounded size for every scale function.
use crate::infra::rngs::FastRng;
use crate::infra::td::*;
use crate::infra::*;
use serde_json::json;

pub const RULE: &str = "digests over 4 scale functions x delta in {1.1,2,5,10,20,50,100,300,1000} x backlog in {0,1,10,1000} x 13 data families (7 smooth incl. sorted/reverse/sawtooth orders, 6 with heavy ties or density cliffs), reads interleaved at random positions, zeros fed as -0.0 in every other block of items, every fourth block on a digest reused after 20000 inserts and clear(); at checkpoints n in {1,2,10,100,...}: n_centroids <= delta+3, and for a grid of ~1200 q and ~700 x the rank error of quantile(q) / cdf(x) against the exact empirical CDF of all inserted values must be <= c*W + 2/n (c=1 smooth, 3 ties/cliffs, 15% guard band). plus six very long sorted streams (6x10^7 quick, 3x10^8 thorough inserts, backlog 10^5) whose empirical CDF is known analytically: centroid bound and quantile accuracy at n = 10^6, 4x10^6, ... ; non-trivial = digest that performed >= 1 fuse and was checked at n >= 100; distinct = (scale, delta, backlog, family, seed) tuples";
pub const ASSUMPTIONS: &[&str] = &[
    "value tolerance tau = max(1e-9 * data range, n * eps * max|x|) when locating quantile(q) in the empirical CDF (a centroid mean is sum/count of a plain running f64 sum and carries its accumulation error)",
    "K2/K3 accuracy is only checked for n >= delta, as stated",
    "'small multiple' is read as c*W with a 15% guard band: thresholds 1.5 W (smooth: the generic midpoint-interpolation bound) and 3.45 W (ties/cliffs, 3 W + 15 %)",
];

const DELTAS: [f64; 9] = [1.1, 2.0, 5.0, 10.0, 20.0, 50.0, 100.0, 300.0, 1000.0];
const BACKLOGS: [usize; 4] = [0, 1, 10, 1000];

/// #values < x and #values <= x in a sorted slice
fn ranks(sorted: &[f64], x: f64) -> (usize, usize) {
    let lt = sorted.partition_point(|v| *v < x);
    let le = sorted.partition_point(|v| *v <= x);
    (lt, le)
}

pub struct Worst {
    pub q_err_over_w: f64,
    pub cdf_err_over_w: f64,
}

/// returns Err((sig, what)) on violation; updates worst ratios
#[allow(clippy::too_many_arguments)]
pub fn check_accuracy(t: &dyn Td, sf: Sf, delta: f64, fam: Family, sorted: &[f64], r: &mut FastRng, worst: &mut Worst, evals: &mut u64) -> Result<(), (String, String)> {
    let n = sorted.len();
    let nf = n as f64;
    // the FIRST read after the inserts is a cdf or a quantile (not n_centroids): a read path that
    // forgets to merge the backlog is only visible to the first reader
    let first_read: Option<(bool, f64, f64)> = match r.below(3) {
        0 => {
            let x0 = sorted[r.below(n as u64) as usize];
            Some((true, x0, t.cdf(x0)))
        }
        1 => {
            let q0 = r.f64();
            Some((false, q0, t.quantile(q0)))
        }
        _ => None,
    };
    let nc = t.n_centroids();
    if (nc as f64) > delta + 3.0 {
        return Err(("C04/too-many-centroids".into(), format!("n_centroids() = {} > delta + 3 = {} after {} inserts", nc, delta + 3.0, n)));
    }
    let Some(w) = sf.width(delta, nf) else {
        return Ok(());
    };
    // "one W for smooth densities, up to three W for ties/cliffs": a "small multiple" of W.
    // Smooth families: the generic bound for interpolating between adjacent centroid midpoints is
    // 1.5 W for any data (the true rank of the returned value lies within the two centroids that
    // bracket q); observed maxima on the unchanged tree over 8 thorough runs: 1.155 W (K0, delta = 5,
    // Pareto(1.5), n = 495 666: four centroids, each spanning >= 20 % of a heavy-tailed sample),
    // 0.975 W for delta = 10, <= 0.93 W for delta >= 20. Ties/cliffs: 3 W with a 15 % guard band.
    let c = if !fam.is_smooth() { 3.45 } else { 1.5 };
    let allowed = c * w + 2.0 / nf;
    if allowed >= 1.0 {
        return Ok(()); // vacuous
    }
    let (lo, hi) = (sorted[0], sorted[n - 1]);
    // value tolerance: 1e-9 of the range, and never below the rounding error a centroid mean can
    // legitimately carry. A fused centroid stores (sum, count) and the sum is a plain running
    // f64 sum; recursive summation of c terms of magnitude M is accurate to (c-1)*u*c*M (Higham),
    // so the mean is accurate to about c*u*M with u = eps/2. For tied values the rounding is
    // systematic (the same addend rounds the same way thousands of times), so the sqrt(n) random-walk
    // model that was used here first is too tight: a constant stream of 783229 copies of
    // 1700000425000.0 legitimately ends with centroid means 5.6 below the value (thorough seed 4).
    // tau = n * eps * M is twice the textbook worst case with c <= n.
    let mag = lo.abs().max(hi.abs());
    let tau = (1e-9 * (hi - lo)).max(f64::EPSILON * mag * nf.max(16.0 * nf.sqrt())).max(f64::MIN_POSITIVE);
    if let Some((is_cdf, arg, val)) = first_read {
        *evals += 1;
        let err = if is_cdf {
            let (lt, _) = ranks(sorted, arg - tau);
            let (_, le) = ranks(sorted, arg + tau);
            (lt as f64 / nf - val).max(val - le as f64 / nf).max(0.0)
        } else {
            let (lt, _) = ranks(sorted, val - tau);
            let (_, le) = ranks(sorted, val + tau);
            (lt as f64 / nf - arg).max(arg - le as f64 / nf).max(0.0)
        };
        if err > allowed || val.is_nan() {
            return Err((
                format!("C04/first-read-after-inserts/{}", if is_cdf { "cdf" } else { "quantile" }),
                format!("{}({:e}) = {:e} as the first read after {} inserts has rank error {:.6} > {:.6} (W = {:.6})", if is_cdf { "cdf" } else { "quantile" }, arg, val, n, err, allowed, w),
            ));
        }
    }
    // q grid
    let mut qs: Vec<f64> = vec![0.0, 1.0, 1e-9, 1.0 - 1e-9];
    let nq = 1000;
    for i in 0..=nq {
        qs.push(i as f64 / nq as f64);
    }
    for _ in 0..200 {
        qs.push(r.f64());
    }
    for q in qs {
        *evals += 1;
        let x = t.quantile(q);
        if x.is_nan() {
            return Err(("C04/quantile-nan".into(), format!("quantile({}) is NaN on a digest of {} values", q, n)));
        }
        let (lt, _) = ranks(sorted, x - tau);
        let (_, le) = ranks(sorted, x + tau);
        let lower = lt as f64 / nf;
        let upper = le as f64 / nf;
        let err = (lower - q).max(q - upper).max(0.0);
        worst.q_err_over_w = worst.q_err_over_w.max((err - 2.0 / nf).max(0.0) / w);
        if err > allowed {
            return Err((
                format!("C04/quantile-rank-error/{}", if fam.is_smooth() { "smooth" } else { "ties" }),
                format!("quantile({}) = {:e}: empirical rank interval [{:.6}, {:.6}], rank error {:.6} > {:.2}*W + 2/n = {:.6} (W = {:.6}, n = {})", q, x, lower, upper, err, c, allowed, w, n),
            ));
        }
    }
    // x grid: data points + uniform in [min, max]
    let mut xs: Vec<f64> = vec![lo, hi];
    for _ in 0..500 {
        xs.push(sorted[r.below(n as u64) as usize]);
    }
    for _ in 0..200 {
        xs.push(lo + (hi - lo) * r.f64());
    }
    for x in xs {
        *evals += 1;
        let p = t.cdf(x);
        if p.is_nan() {
            return Err(("C04/cdf-nan".into(), format!("cdf({:e}) is NaN", x)));
        }
        let (lt, le) = ranks(sorted, x);
        let (lt2, _) = ranks(sorted, x - tau);
        let (_, le2) = ranks(sorted, x + tau);
        let lower = lt.min(lt2) as f64 / nf;
        let upper = le.max(le2) as f64 / nf;
        let err = (lower - p).max(p - upper).max(0.0);
        worst.cdf_err_over_w = worst.cdf_err_over_w.max((err - 2.0 / nf).max(0.0) / w);
        if err > allowed {
            return Err((
                format!("C04/cdf-rank-error/{}", if fam.is_smooth() { "smooth" } else { "ties" }),
                format!("cdf({:e}) = {:.6}: empirical CDF interval [{:.6}, {:.6}], error {:.6} > {:.2}*W + 2/n = {:.6} (W = {:.6}, n = {})", x, p, lower, upper, err, c, allowed, w, n),
            ));
        }
    }
    Ok(())
}

fn item(ctx: &Ctx, i: usize, rep: &mut Report) {
    let mut r = FastRng::new(ctx.sub_seed(&[i as u64]));
    // enumerate the configuration grid cyclically, families randomly paired so every item differs
    let sf = ALL_SF[i % 4];
    let delta = DELTAS[(i / 4) % 9];
    let backlog = BACKLOGS[(i / 36) % 4];
    let fams: Vec<Family> = SMOOTH.iter().chain(TIES.iter()).copied().collect();
    let fam = fams[(i / 144 + i) % 14];
    let n_max: usize = match ctx.tier {
        Tier::Quick => if i % 5 == 0 { 100_000 } else { 10_000 },
        Tier::Thorough => if i % 10 == 0 { 1_000_000 } else { 100_000 },
    };
    // rank accuracy does not depend on the unit or origin of the data: epoch milliseconds (1.7e12 +
    // x), joules (x * 1e-19), ...
    let (scale, offset) = *r.pick(&[(1.0, 0.0), (1.0, 0.0), (1e-19, 0.0), (1e9, 0.0), (1e4, 1.7e12), (1e-3, -30.0), (1e12, 0.0)]);
    let reused = (i / 5) % 4 == 3;
    let label = format!("tdigest({},delta={},backlog={},{},x*{:e}+{:e}{})", sf.name(), delta, backlog, fam.name(), scale, offset, if reused { ",reused after clear()" } else { "" });
    rep.config(&label);
    let mut t = make_td(sf, delta, backlog);
    // every fourth block of five items runs on a *reused* digest: 20 000 values of the same family, then
    // clear() - the bounds are about the inserts since then (seventh round: a running total that clear()
    // forgets to reset over-compresses the next, smaller batch)
    if reused {
        let pre = guarded(|| {
            for k in 0..20_000 {
                t.insert(fam.gen(&mut r, k, 20_000) * scale + offset);
            }
            t.clear();
        });
        if let Err(msg) = pre {
            rep.violation(format!("C04/panic/{}/{}", panic_class(&msg), sf.name()), format!("{}: panicked while filling and clearing the digest: {}", label, msg), json!({"scale": sf, "delta": delta, "backlog": backlog, "family": fam.name(), "item": i}));
            return;
        }
    }
    let mut vals: Vec<f64> = Vec::with_capacity(n_max);
    let mut worst = Worst { q_err_over_w: 0.0, cdf_err_over_w: 0.0 };
    let mut checkpoints: Vec<usize> = vec![1, 2, 10];
    let mut c = 100;
    while c <= n_max {
        checkpoints.push(c);
        c *= 10;
    }
    // a few random extra checkpoints
    for _ in 0..2 {
        checkpoints.push(1 + r.below(n_max as u64) as usize);
    }
    checkpoints.sort_unstable();
    checkpoints.dedup();
    let p_read = *r.pick(&[0.0, 0.001, 0.02]);
    let snap0 = pdatastructs::verif::snapshot();
    let mut evals = 0u64;
    let mut checked_big = false;
    let mut ci = 0;
    let res = guarded(|| -> Result<(), (String, String)> {
        for k in 0..n_max {
            let x = fam.gen(&mut r, k, n_max) * scale + offset;
            // every other block of items feeds its zeros as -0.0 (equal to 0.0 for every comparison, so the
            // oracle is unaffected; an ordering by bit pattern or by a sign test is not) - seventh round
            let x = if (i / 14) % 2 == 1 && x == 0.0 { -0.0 } else { x };
            t.insert(x);
            vals.push(x);
            if p_read > 0.0 && r.chance(p_read) {
                // interleaved read forces a merge
                match r.below(3) {
                    0 => {
                        let _ = t.quantile(r.f64());
                    }
                    1 => {
                        let _ = t.cdf(x);
                    }
                    _ => {
                        let _ = t.count();
                    }
                }
            }
            if ci < checkpoints.len() && k + 1 == checkpoints[ci] {
                ci += 1;
                let mut sorted = vals.clone();
                sorted.sort_by(|a, b| a.partial_cmp(b).unwrap());
                check_accuracy(t.as_ref(), sf, delta, fam, &sorted, &mut r, &mut worst, &mut evals)?;
                if k + 1 >= 100 {
                    checked_big = true;
                }
            }
        }
        Ok(())
    });
    rep.evaluations += evals;
    rep.count("inserts", vals.len() as u64);
    rep.count("digests", 1);
    let key = |s: &str| format!("{}/{}", s, if fam.is_smooth() { "smooth" } else { "ties" });
    rep.max(&key("worst_quantile_rank_error_over_W"), worst.q_err_over_w);
    if fam.is_smooth() {
        rep.max(&format!("worst_rank_error_over_W/smooth/delta={}", delta), worst.q_err_over_w.max(worst.cdf_err_over_w));
    }
    rep.max(&key("worst_cdf_rank_error_over_W"), worst.cdf_err_over_w);
    rep.max("max_centroids_minus_delta", t.n_centroids() as f64 - delta);
    let bad = match res {
        Ok(Ok(())) => None,
        Ok(Err(b)) => Some(b),
        Err(msg) => Some((format!("C04/panic/{}", panic_class(&msg)), format!("panicked: {}", msg))),
    };
    if let Some((sig, what)) = bad {
        rep.violation(
            format!("{}/{}", sig, sf.name()),
            format!("{} after {} inserts: {}", label, vals.len(), what),
            json!({"scale": sf, "delta": delta, "backlog": backlog, "family": fam.name(), "value_scale": scale, "value_offset": offset, "n": vals.len(), "item": i, "p_read": p_read, "centroids": t.centroids().iter().take(40).collect::<Vec<_>>()}),
        );
        return;
    }
    let snap = pdatastructs::verif::snapshot();
    if snap[Event::TdFuse as usize] > snap0[Event::TdFuse as usize] && checked_big {
        let mut h = CaseHash::new(&label);
        h.push(i as u64);
        rep.nontrivial(h.0);
        if rep.want_sample() {
            rep.sample(json!({"config": label, "n": vals.len(), "checkpoints": checkpoints, "final_centroids": t.n_centroids(), "worst_quantile_err_over_W": worst.q_err_over_w, "worst_cdf_err_over_W": worst.cdf_err_over_w}));
        }
    }
}

/// very long sorted stream 0, 1, 2, ... (empirical CDF known analytically, nothing stored): the
/// centroid bound must hold "however large n is"
fn long_stream(ctx: &Ctx, j: usize, rep: &mut Report) {
    let sf = [Sf::K2, Sf::K3, Sf::K2, Sf::K3, Sf::K0, Sf::K1][j % 6];
    let delta = [100.0, 1000.0, 20.0, 100.0, 100.0, 100.0][j % 6];
    let n: usize = ctx.tier.pick(60_000_000, 300_000_000);
    let backlog = 100_000;
    let label = format!("tdigest({},delta={},backlog={},sorted 0..{})", sf.name(), delta, backlog, n);
    rep.config(&label);
    let mut t = make_td(sf, delta, backlog);
    let res = guarded(|| -> Result<(), (String, String)> {
        let mut next_check = 1_000_000usize;
        for i in 0..n {
            t.insert(i as f64);
            if i & 0xf_ffff == 0 {
                beat();
            }
            if i + 1 == next_check || i + 1 == n {
                next_check *= 4;
                let cnt = (i + 1) as f64;
                let nc = t.n_centroids();
                if (nc as f64) > delta + 3.0 {
                    return Err(("C04/too-many-centroids".into(), format!("n_centroids() = {} > delta + 3 = {} after {} sorted inserts", nc, delta + 3.0, i + 1)));
                }
                if let Some(w) = sf.width(delta, cnt) {
                    let allowed = 1.5 * w + 2.0 / cnt;
                    for k in 0..=1000 {
                        let q = k as f64 / 1000.0;
                        let x = t.quantile(q);
                        // values 0..cnt-1: fraction of values <= x
                        let lower = (x.ceil().clamp(0.0, cnt)) / cnt; // #values < x
                        let upper = ((x.floor() + 1.0).clamp(0.0, cnt)) / cnt; // #values <= x
                        let err = (lower - q).max(q - upper).max(0.0);
                        if err > allowed {
                            return Err(("C04/quantile-rank-error/smooth".into(), format!("quantile({}) = {:e} after {} sorted inserts: rank error {:.6} > {:.6}", q, x, i + 1, err, allowed)));
                        }
                    }
                }
            }
        }
        Ok(())
    });
    rep.evaluations += n as u64;
    rep.count("inserts", n as u64);
    rep.count("long_streams", 1);
    rep.max("long_stream_centroids_minus_delta", t.n_centroids() as f64 - delta);
    match res {
        Ok(Ok(())) => {
            let mut h = CaseHash::new(&label);
            h.push(j as u64);
            rep.nontrivial(h.0);
        }
        Ok(Err((sig, what))) => rep.violation(format!("{}/{}", sig, sf.name()), format!("{}: {}", label, what), json!({"scale": sf, "delta": delta, "backlog": backlog, "n": n, "stream": "sorted 0,1,2,..."})),
        Err(msg) => rep.violation(format!("C04/panic/{}", panic_class(&msg)), format!("{}: panicked: {}", label, msg), json!({"scale": sf, "delta": delta})),
    }
}

pub fn run(ctx: &Ctx) -> Report {
    let n = ctx.tier.pick(1872, 18_720);
    let n_long = 6;
    let mut rep = par_run(ctx, n + n_long, |i, rep| {
        // long streams first (they run alongside the grid)
        if i < n_long {
            long_stream(ctx, i, rep)
        } else {
            item(ctx, i - n_long, rep)
        }
    });
    rep.require_events(&["TdMerge", "TdFuse", "TdQuantileLeft", "TdQuantileInterior", "TdQuantileRight", "TdCdfInterior", "TdCdfRightTail"]);
    rep
}
