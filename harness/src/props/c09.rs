//! C09 — LossyCounter frequency guarantees: no misses, no gross intruders, bounded table.
use crate::infra::rngs::FastRng;
use crate::infra::*;
use pdatastructs::topk::lossycounter::LossyCounter;
use serde_json::json;
use std::collections::{HashMap, HashSet};

pub const RULE: &str = "with_width(w) for w in {1,2,3,4,7,10,100,1000} and with_epsilon(e) incl. non-reciprocal e (0.3, 0.07, 0.011); streams: 2-5 keys, uniform over 1e4 keys, Zipf, round-robin, adversarial (an element re-introduced right after every pruning boundary so f+delta sits exactly at the pruning threshold, and variants one above it); exact HashMap oracle; at every prefix (streams <= 5000) or at every window boundary -1/0/+1 plus 200 random prefixes: n(), add's return value vs the tracked set observed just before, no-miss / no-intruder for thresholds {0, e/2, e, 2e, 0.05, 0.1, 0.5, 1} and random ones, |query(0)| <= width*(H(ceil(n/width))+1); epsilons a hair off 1/k (1/(k(1 +- d)), d = 4e-15..9e-7, and float-noise cases): 1-3 windows of distinct elements, each with true frequency 1 > epsilon*n, must all be in query(0). non-trivial = stream with >= 1 pruning that removed >= 1 entry; distinct = (config, stream kind, seed) tuples";
pub const ASSUMPTIONS: &[&str] = &["boundary comparisons use a slack of 1e-9*max(1,n) so that the crate's own f64 arithmetic in (s - epsilon)*n is not contradicted by the checker's rounding"];

fn harmonic(m: usize) -> f64 {
    if m < 100_000 {
        (1..=m).map(|i| 1.0 / i as f64).sum()
    } else {
        (m as f64).ln() + 0.577_215_664_901_532_9 + 0.5 / m as f64
    }
}

#[derive(Clone, Copy, Debug)]
enum Kind {
    FewKeys,
    Uniform,
    Zipf,
    RoundRobin,
    AdversarialAtThreshold,
    AdversarialAboveThreshold,
    Bursts,
    /// a tracked element closes every window (the add that triggers pruning hits a known key)
    KnownAtWindowEnd,
}

fn gen_stream(kind: Kind, n: usize, width: usize, r: &mut FastRng) -> Vec<u64> {
    let mut v = Vec::with_capacity(n);
    match kind {
        Kind::FewKeys => {
            let a = 2 + r.below(4);
            for _ in 0..n {
                v.push(r.below(a));
            }
        }
        Kind::Uniform => {
            for _ in 0..n {
                v.push(r.below(10_000));
            }
        }
        Kind::Zipf => {
            // inverse-CDF-free approximation: rank = floor(u^-1/(a-1)) style heavy tail
            for _ in 0..n {
                let u = 1.0 - r.f64();
                let rank = (u.powf(-1.0 / 1.1)).floor() as u64;
                v.push(rank.min(1_000_000));
            }
        }
        Kind::RoundRobin => {
            let a = 1 + r.below(3 * width as u64 + 3);
            for i in 0..n {
                v.push(i as u64 % a);
            }
        }
        Kind::AdversarialAtThreshold | Kind::AdversarialAboveThreshold => {
            // key 7 right after every pruning boundary (position 0 of each window); the "above"
            // variant adds one extra occurrence in the first window; rest: fresh singletons and a
            // few medium-frequency keys
            let extra = matches!(kind, Kind::AdversarialAboveThreshold);
            let mut fresh = 1_000_000u64;
            for i in 0..n {
                let pos = i % width;
                if pos == 0 || (extra && i == 1 && width > 1) {
                    v.push(7);
                } else if r.chance(0.2) {
                    v.push(100 + r.below(5));
                } else {
                    fresh += 1;
                    v.push(fresh);
                }
            }
        }
        Kind::KnownAtWindowEnd => {
            let mut fresh = 5_000_000u64;
            for i in 0..n {
                if (i + 1) % width == 0 || i % width == 0 {
                    v.push(3); // first and last position of every window
                } else {
                    fresh += 1;
                    v.push(fresh);
                }
            }
        }
        Kind::Bursts => {
            let mut cur = r.below(50);
            for _ in 0..n {
                if r.chance(0.02) {
                    cur = r.below(50);
                }
                v.push(if r.chance(0.7) { cur } else { 1000 + r.below(5000) });
            }
        }
    }
    v
}

fn item(ctx: &Ctx, i: usize, rep: &mut Report) {
    let mut r = FastRng::new(ctx.sub_seed(&[i as u64, ctx.is_dbg() as u64]));
    let by_eps = i % 3 == 2;
    let mut lc: LossyCounter<u64> = if by_eps {
        LossyCounter::with_epsilon(*r.pick(&[0.5, 0.3, 0.25, 0.2, 0.15, 0.1, 0.07, 0.05, 0.025, 0.011, 0.01, 1.0 / 3.0, 1.0 / 7.0, 0.9, 0.001, 0.45]))
    } else {
        LossyCounter::with_width(*r.pick(&[1usize, 2, 3, 4, 7, 10, 100, 1000]))
    };
    let width = lc.width();
    let eps = lc.epsilon();
    let kind = [Kind::FewKeys, Kind::Uniform, Kind::Zipf, Kind::RoundRobin, Kind::AdversarialAtThreshold, Kind::AdversarialAboveThreshold, Kind::Bursts, Kind::KnownAtWindowEnd][(i / 3) % 8];
    let long0 = r.chance(0.12);
    let many_windows = width <= 4 && r.chance(0.25);
    let long = long0;
    let n = if many_windows {
        // more than 2^16 windows
        70_000 * width + r.below(ctx.tier.pick(60_000, 600_000)) as usize
    } else if long {
        5000 + r.below(ctx.tier.pick(100_000, 1_000_000)) as usize
    } else {
        1 + r.below(if width >= 100 { 5000 } else { 1500 }) as usize
    };
    let n = if ctx.is_dbg() { n.min(20_000) } else { n };
    let long = long0 || n > 5000;
    let label = format!("lossy(width={},eps={},{:?},n={})", width, eps, kind, n);
    rep.config(format!("width={},eps={},{:?}", width, eps, kind));
    let mut stream = gen_stream(kind, n, width, &mut r);
    if many_windows && width >= 2 && (i / 3) % 2 == 0 {
        // a key that first appears after more than 2^16 windows and then dominates the stream:
        // it must be reported once its share exceeds epsilon
        let start = 66_000 * width;
        let total = (start as f64 * 2.6) as usize;
        stream.resize(total, 0);
        let mut fresh = 9_000_000u64;
        for (p, x) in stream.iter_mut().enumerate() {
            if p < start {
                continue;
            }
            if r.chance(0.92) {
                *x = 424_242;
            } else {
                fresh += 1;
                *x = fresh;
            }
        }
    }
    let n = stream.len();
    let snap0 = pdatastructs::verif::snapshot();
    // clear() somewhere in the middle (mostly NOT on a window boundary), clone-and-continue
    let clear_at: Option<usize> = if r.chance(0.3) && n > 3 { Some(1 + r.below(n as u64 - 2) as usize) } else { None };
    let clone_at: Option<usize> = if r.chance(0.3) { Some(r.below(n as u64) as usize) } else { None };
    let mut truth: HashMap<u64, usize> = HashMap::new();
    let mut random_prefixes: HashSet<usize> = HashSet::new();
    if long {
        for _ in 0..200 {
            random_prefixes.insert(1 + r.below(n as u64) as usize);
        }
        // window boundaries -1/0/+1 (all of them when there are few, else 300 random windows)
        let n_windows = n / width;
        for j in 0..n_windows.min(300) {
            let wj = if n_windows <= 300 { j + 1 } else { 1 + r.below(n_windows as u64) as usize };
            for d in [-1i64, 0, 1] {
                let p = (wj * width) as i64 + d;
                if p >= 1 && p as usize <= n {
                    random_prefixes.insert(p as usize);
                }
            }
        }
    }
    let mut worst_fill = 0f64;
    let mut checks = 0u64;
    let res = guarded(|| -> Option<(String, String)> {
        if lc.n() != 0 || lc.query(0.0).count() != 0 {
            return Some(("C09/fresh-state".into(), "fresh counter not empty".into()));
        }
        let mut offset = 0usize; // adds before the last clear()
        for (idx, x) in stream.iter().enumerate() {
            beat();
            if clear_at == Some(idx) {
                lc.clear();
                truth.clear();
                offset = idx;
                if lc.n() != 0 || lc.query(0.0).count() != 0 {
                    return Some(("C09/state-after-clear".into(), format!("after clear(): n() = {}, {} tracked elements", lc.n(), lc.query(0.0).count())));
                }
            }
            if clone_at == Some(idx) {
                lc = lc.clone();
            }
            let cnt = idx + 1 - offset;
            let at_prefix = !long || random_prefixes.contains(&(idx + 1)) || idx + 1 == n;
            // add's return value vs the tracked set observed just before the call
            let tracked_before: Option<bool> = if !long || at_prefix { Some(lc.query(0.0).any(|k| k == *x)) } else { None };
            let was_new = lc.add(*x);
            *truth.entry(*x).or_insert(0) += 1;
            if let Some(tb) = tracked_before {
                if was_new == tb {
                    return Some(("C09/add-return".into(), format!("add({}) returned {} at position {} but the element was {} just before the call", x, was_new, cnt, if tb { "tracked" } else { "not tracked" })));
                }
            }
            if lc.n() != cnt {
                return Some(("C09/n".into(), format!("n() = {} after {} adds", lc.n(), cnt)));
            }
            if !at_prefix {
                continue;
            }
            let nf = cnt as f64;
            let slack = 1e-9 * nf.max(1.0);
            // tracked-set size bound
            let all: Vec<u64> = lc.query(0.0).collect();
            let bound = width as f64 * (harmonic(cnt.div_ceil(width)) + 1.0);
            worst_fill = worst_fill.max(all.len() as f64 / bound);
            if all.len() as f64 > bound + 1e-9 {
                return Some(("C09/tracked-set-too-large".into(), format!("{} tracked elements after {} adds exceed width*(H(ceil(n/width))+1) = {:.2}", all.len(), cnt, bound)));
            }
            let all_set: HashSet<u64> = all.iter().copied().collect();
            if all_set.len() != all.len() {
                return Some(("C09/duplicate-in-query".into(), "query(0) yields an element twice".into()));
            }
            for k in &all {
                if !truth.contains_key(k) {
                    return Some(("C09/phantom-element".into(), format!("query(0) yields {} which was never added", k)));
                }
            }
            let frequent: Vec<(u64, usize)> = truth.iter().filter(|(_, t)| (**t as f64) > eps * nf + slack).map(|(k, t)| (*k, *t)).collect();
            // thresholds
            let mut ths = vec![0.0, eps / 2.0, eps, 2.0 * eps, 0.05, 0.1, 0.5, 1.0];
            ths.push(r.f64());
            ths.push(eps + r.f64() * (1.0 - eps));
            // the two clauses are stated for every threshold: above 1 + eps nothing can qualify,
            // below 0 everything tracked may be returned
            ths.extend([1.0 + eps / 2.0, 1.0 + eps + 0.01, 1.3, 10.0, -0.5]);
            for s in ths {
                checks += 1;
                let got: HashSet<u64> = lc.query(s).collect();
                // no misses: only elements with true frequency > eps*n can be required
                for (k, t) in &frequent {
                    let tf = *t as f64;
                    if !got.contains(k) && tf >= s * nf + slack {
                        return Some((
                            "C09/miss".into(),
                            format!("element {} has true frequency {} >= s*n = {:.3} and > eps*n = {:.3} but is missing from query({}) after {} adds", k, t, s * nf, eps * nf, s, cnt),
                        ));
                    }
                }
                // no intruders
                for k in &got {
                    let t = truth.get(k).copied().unwrap_or(0);
                    if (t as f64) < (s - eps) * nf - slack {
                        return Some((
                            "C09/intruder".into(),
                            format!("element {} has true frequency {} < (s - eps)*n = {:.3} but is in query({}) after {} adds", k, t, (s - eps) * nf, s, cnt),
                        ));
                    }
                }
                for k in &got {
                    if !all_set.contains(k) {
                        return Some(("C09/query-not-subset-of-tracked".into(), format!("query({}) yields {} which query(0) does not", s, k)));
                    }
                }
            }
        }
        None
    });
    rep.evaluations += n as u64;
    rep.count("threshold_checks", checks);
    rep.count("streams", 1);
    rep.max("tracked_set_size_over_bound", worst_fill);
    match res {
        Ok(None) => {
            let snap = pdatastructs::verif::snapshot();
            if snap[Event::LossyPrune as usize] > snap0[Event::LossyPrune as usize] && snap[Event::LossyPrunedMax as usize] > 0 {
                let mut h = CaseHash::new(&label);
                h.push(i as u64);
                rep.nontrivial(h.0);
                if rep.want_sample() && n <= 12 {
                    rep.sample(json!({"config": label, "stream": stream}));
                }
            }
        }
        Ok(Some((sig, what))) => rep.violation(sig, format!("{}: {}", label, what), json!({"width": width, "epsilon": eps, "by_epsilon": by_eps, "kind": format!("{:?}", kind), "n": n, "stream_head": stream.iter().take(60).collect::<Vec<_>>(), "item": i})),
        Err(msg) => rep.violation(format!("C09/panic/{}", panic_class(&msg)), format!("{}: panicked: {}", label, msg), json!({"width": width, "epsilon": eps, "kind": format!("{:?}", kind), "n": n, "item": i})),
    }
}

/// Epsilons whose reciprocal is a hair above or below an integer k (and float-noise cases such as
/// 1/(1/49)). The guarantees need a window of at least 1/epsilon elements: with a narrower one, a
/// stream of `width` distinct elements is pruned completely at the first window boundary although
/// each element has true frequency 1 > epsilon * n. The check exhibits exactly that miss.
fn near_reciprocal(rep: &mut Report) {
    let mut epss = vec![1.0 / 49.0, 1.0 / 3.0, 1.0 / 7.0, 1.0 / 93.0, 0.1 + 0.2 - 0.2];
    for k in [2.0f64, 3.0, 10.0, 100.0, 1000.0] {
        for d in [9e-7, 1e-7, 1e-9, 1e-12, 4e-15] {
            epss.push(1.0 / (k + d * k));
            epss.push(1.0 / (k - d * k));
        }
    }
    for eps in epss {
        rep.evaluations += 1;
        let res = guarded(|| -> Option<(String, String)> {
            let mut lc: LossyCounter<u64> = LossyCounter::with_epsilon(eps);
            let (width, e) = (lc.width(), lc.epsilon());
            for rounds in 1..=3usize {
                for j in 0..width {
                    lc.add((rounds * 1_000_000 + j) as u64);
                }
                let n = lc.n();
                let got: std::collections::HashSet<u64> = lc.query(0.0).collect();
                // elements of the window just completed: true frequency 1
                if 1.0 > e * n as f64 {
                    if let Some(j) = (0..width).find(|j| !got.contains(&((rounds * 1_000_000 + j) as u64))) {
                        return Some(("C09/miss/window-narrower-than-1-over-epsilon".into(), format!("with_epsilon({:e}): width() = {}, epsilon() = {:e} (1/epsilon = {}); after {} distinct adds element #{} of the last window (true frequency 1 > epsilon*n = {}) is not in query(0)", eps, width, e, 1.0 / e, n, j, e * n as f64)));
                    }
                }
            }
            None
        });
        match res {
            Ok(None) => rep.count("near_reciprocal_epsilons", 1),
            Ok(Some((sig, what))) => rep.violation(sig, what, json!({"epsilon": eps})),
            Err(msg) => rep.violation(format!("C09/panic/{}", panic_class(&msg)), format!("with_epsilon({:e}): {}", eps, msg), json!({"epsilon": eps})),
        }
    }
}

pub fn run(ctx: &Ctx) -> Report {
    let n = match (ctx.tier, ctx.is_dbg()) {
        (Tier::Quick, false) => 2500,
        (Tier::Quick, true) => 300,
        (Tier::Thorough, false) => 40_000,
        (Tier::Thorough, true) => 2500,
    };
    let mut rep = par_run(ctx, n, |i, rep| {
        if i == 0 {
            near_reciprocal(rep);
        }
        item(ctx, i, rep)
    });
    rep.require_events(&["LossyPrune"]);
    rep
}
