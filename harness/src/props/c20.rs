//! C20 — HyperLogLog survives serialisation and rejects invalid serialised state.
use crate::infra::hashers::{CtlBuildHasher, HMode};
use crate::infra::rngs::FastRng;
use crate::infra::*;
use pdatastructs::hyperloglog::HyperLogLog;
use serde_json::{json, Value};

pub const RULE: &str = "serde_json round trips for every precision with empty/sparse/dense/all-255/arbitrary registers and several hashers (incl. BuildHasher types that serialise as null, a bare number or an array): equality, count(), and differential continuation (further adds and merges) of original vs deserialised; rejection: documents with b in {0..3,19,20,63,64,65,2^32,2^63,-1,4.5,\"4\"} x registers length in {0,1,2^b-1,2^b,2^b+1,2^(b-1),2^(b+1),2^20} varied independently, register values > 255, missing/duplicate/unknown fields, truncated text and random structural mutations; every document must fail to deserialise or yield 4<=b<=18 with exactly 2^b registers, after which boundary add_hashed/count/merge must return. non-trivial = corrupted document that deserialised to Err, or round trip of a non-empty sketch; distinct = document hashes";
pub const ASSUMPTIONS: &[&str] = &["serde_json is the only serde format exercised"];

type Hll = HyperLogLog<u64, CtlBuildHasher>;

// Hashers whose serialised form is not a JSON object: a unit struct (null), a newtype around an
// Option (null or a number) and a tuple struct (array). The sketch must survive whatever shape
// its BuildHasher serialises to.
use serde::{Deserialize, Serialize};
use std::hash::{BuildHasher, Hasher};
#[derive(Clone, Copy, PartialEq, Eq, Debug, Serialize, Deserialize)]
struct UnitBh;
#[derive(Clone, Copy, PartialEq, Eq, Debug, Serialize, Deserialize)]
struct OptBh(Option<u64>);
#[derive(Clone, Copy, PartialEq, Eq, Debug, Serialize, Deserialize)]
struct PairBh(u64, u32);
fn seeded(seed: u64) -> std::collections::hash_map::DefaultHasher {
    let mut h = std::collections::hash_map::DefaultHasher::new();
    h.write_u64(seed);
    h
}
impl BuildHasher for UnitBh {
    type Hasher = std::collections::hash_map::DefaultHasher;
    fn build_hasher(&self) -> Self::Hasher {
        seeded(0x51)
    }
}
impl BuildHasher for OptBh {
    type Hasher = std::collections::hash_map::DefaultHasher;
    fn build_hasher(&self) -> Self::Hasher {
        seeded(self.0.unwrap_or(7))
    }
}
impl BuildHasher for PairBh {
    type Hasher = std::collections::hash_map::DefaultHasher;
    fn build_hasher(&self) -> Self::Hasher {
        seeded(self.0 ^ self.1 as u64)
    }
}

fn round_trip_generic<B>(b: usize, bh: B, shape: &str, r: &mut FastRng, rep: &mut Report)
where
    B: BuildHasher + Clone + Eq + std::fmt::Debug + Serialize + for<'de> Deserialize<'de> + std::panic::RefUnwindSafe,
{
    rep.evaluations += 1;
    let res = guarded(|| -> Option<(String, String)> {
        let mut orig: HyperLogLog<u64, B> = HyperLogLog::with_hash(b, bh.clone());
        for _ in 0..(1usize << b) / 2 + 5 {
            orig.add(&r.next());
        }
        let text = match serde_json::to_string(&orig) {
            Ok(t) => t,
            Err(e) => return Some(("C20/serialize-failed".into(), format!("{}", e))),
        };
        let mut de: HyperLogLog<u64, B> = match serde_json::from_str(&text) {
            Ok(d) => d,
            Err(e) => return Some(("C20/round-trip/deserialize-failed".into(), format!("own output rejected: {} (document ends ...{})", e, &text[text.len().saturating_sub(60)..]))),
        };
        if de != orig || de.b() != orig.b() || de.registers() != orig.registers() || de.buildhasher() != orig.buildhasher() || de.count() != orig.count() {
            return Some(("C20/round-trip/not-equal".into(), "deserialised sketch != original".into()));
        }
        for step in 0..100 {
            let k = r.next();
            de.add(&k);
            orig.add(&k);
            if de != orig {
                return Some(("C20/round-trip/continuation-diverges".into(), format!("after {} further adds the sketches differ", step + 1)));
            }
        }
        None
    });
    match res {
        Ok(None) => {
            let mut h = CaseHash::new(shape);
            h.push(b as u64);
            rep.nontrivial(h.0);
            rep.count("round_trips_with_non_object_hashers", 1);
        }
        Ok(Some((sig, w))) => rep.violation(sig, format!("hll(b={}, hasher serialising as {}): {}", b, shape, w), json!({"b": b, "hasher_shape": shape})),
        Err(msg) => rep.violation(format!("C20/round-trip/panic/{}", panic_class(&msg)), format!("hll(b={}, hasher serialising as {}): panicked: {}", b, shape, msg), json!({"b": b, "hasher_shape": shape})),
    }
}

fn boundary_adds() -> Vec<u64> {
    let mut v = vec![0u64, u64::MAX, 1, u64::MAX - 1];
    for i in 0..64 {
        v.push(1u64 << i);
        v.push(!(1u64 << i));
        v.push((1u64 << i).wrapping_sub(1));
    }
    v
}

/// invariants + liveness of a deserialised sketch. None = fine
fn exercise(h: &mut Hll) -> Option<(String, String)> {
    let b = h.b();
    let m = h.m();
    if !(4..=18).contains(&b) {
        return Some(("C20/accepted-invalid/b-out-of-range".into(), format!("deserialised sketch has b() = {}", b)));
    }
    if m != (1usize << b) || h.registers().len() != m {
        return Some(("C20/accepted-invalid/registers-length".into(), format!("deserialised sketch has b() = {} but {} registers", b, m)));
    }
    let r = guarded(|| {
        let _ = h.count();
        for x in boundary_adds() {
            h.add_hashed(x);
        }
        let _ = h.count();
        let mut fresh = Hll::with_hash(h.b(), *h.buildhasher());
        fresh.add_hashed(12345);
        h.merge(&fresh);
        fresh.merge(h);
        let _ = fresh.count();
        let _ = h.is_empty();
        let _ = h.relative_error();
    });
    match r {
        Ok(()) => None,
        Err(msg) => Some((format!("C20/accepted-then-panics/{}", panic_class(&msg)), format!("operations on the deserialised sketch panicked: {}", msg))),
    }
}

fn doc(regs: &Value, b: &Value, bh: &CtlBuildHasher) -> String {
    format!("{{\"registers\":{},\"b\":{},\"buildhasher\":{}}}", regs, b, serde_json::to_string(bh).unwrap())
}

fn try_doc(text: &str, expect_valid: bool, rep: &mut Report, what: &str) {
    rep.evaluations += 1;
    let res = guarded(|| serde_json::from_str::<Hll>(text));
    let short: String = text.chars().take(300).collect();
    match res {
        Err(msg) => rep.violation(
            format!("C20/deserialize-panics/{}", panic_class(&msg)),
            format!("from_str panicked on {}: {}", what, msg),
            json!({"document_head": short, "kind": what}),
        ),
        Ok(Err(_)) => {
            if expect_valid {
                rep.violation("C20/valid-document-rejected", format!("a valid document was rejected ({})", what), json!({"document_head": short}));
            } else {
                rep.count("rejected", 1);
                rep.nontrivial(fnv(text.as_bytes()));
            }
        }
        Ok(Ok(mut h)) => {
            rep.count("accepted", 1);
            if let Some((sig, w)) = exercise(&mut h) {
                rep.violation(sig, format!("{}: {}", what, w), json!({"document_head": short, "kind": what, "document_len": text.len()}));
            }
        }
    }
}

fn round_trip(b: usize, bh: CtlBuildHasher, regs: Vec<u8>, r: &mut FastRng, rep: &mut Report, what: &str) {
    rep.evaluations += 1;
    let res = guarded(|| -> Option<(String, String)> {
        let orig = Hll::with_registers_and_hash(b, regs.clone(), bh);
        let text = match serde_json::to_string(&orig) {
            Ok(t) => t,
            Err(e) => return Some(("C20/serialize-failed".into(), format!("{}", e))),
        };
        let mut de: Hll = match serde_json::from_str(&text) {
            Ok(d) => d,
            Err(e) => return Some(("C20/round-trip/deserialize-failed".into(), format!("own output rejected: {}", e))),
        };
        let mut orig = orig;
        if de != orig || de.b() != orig.b() || de.registers() != orig.registers() || de.buildhasher() != orig.buildhasher() {
            return Some(("C20/round-trip/not-equal".into(), "deserialised sketch != original".into()));
        }
        if de.count() != orig.count() {
            return Some(("C20/round-trip/count".into(), format!("count {} vs {}", de.count(), orig.count())));
        }
        // differential continuation
        let mut other = Hll::with_hash(b, bh);
        for _ in 0..50 {
            other.add(&r.next());
        }
        for step in 0..120 {
            if step % 40 == 39 {
                de.merge(&other);
                orig.merge(&other);
            } else {
                let k = r.next();
                de.add(&k);
                orig.add(&k);
            }
            if de != orig || de.count() != orig.count() {
                return Some(("C20/round-trip/continuation-diverges".into(), format!("after {} further operations the sketches differ", step + 1)));
            }
        }
        // value-level round trip as well
        let v = serde_json::to_value(&orig).ok()?;
        let de2: Hll = serde_json::from_value(v).ok()?;
        if de2 != orig {
            return Some(("C20/round-trip/not-equal".into(), "to_value/from_value round trip differs".into()));
        }
        None
    });
    match res {
        Ok(None) => {
            if regs.iter().any(|x| *x != 0) {
                let mut h = CaseHash::new(what);
                h.push(b as u64);
                regs.iter().take(64).for_each(|x| h.push(*x as u64));
                rep.nontrivial(h.0);
            }
            rep.count("round_trips", 1);
        }
        Ok(Some((sig, w))) => rep.violation(sig, format!("hll(b={},{}) {}: {}", b, bh.name(), what, w), json!({"b": b, "hasher": bh, "registers_head": regs.iter().take(32).collect::<Vec<_>>(), "kind": what})),
        Err(msg) => rep.violation(format!("C20/round-trip/panic/{}", panic_class(&msg)), format!("hll(b={}) {}: panicked: {}", b, what, msg), json!({"b": b, "hasher": bh, "kind": what})),
    }
}

fn regs_json(len: usize, fill: u8) -> Value {
    Value::Array((0..len).map(|i| json!(if fill == 0 { 0 } else { ((i % fill as usize) + 1) as u8 })).collect())
}

pub fn run(ctx: &Ctx) -> Report {
    let n_mut = match (ctx.tier, ctx.is_dbg()) {
        (Tier::Quick, false) => 12_000,
        (Tier::Quick, true) => 1500,
        (Tier::Thorough, false) => 300_000,
        (Tier::Thorough, true) => 12_000,
    };
    let bs_bad: Vec<Value> = vec![
        json!(0), json!(1), json!(2), json!(3), json!(19), json!(20), json!(63), json!(64), json!(65),
        json!(4294967296u64), json!(9223372036854775808u64), json!(18446744073709551615u64), json!(-1), json!(4.5), json!("4"), json!(null), json!([4]),
    ];
    let n_grid = 15 + bs_bad.len() + 15;
    par_run(ctx, n_grid + n_mut / 100, |i, rep| {
        let mut r = FastRng::new(ctx.sub_seed(&[i as u64]));
        let bh = match i % 3 {
            0 => CtlBuildHasher::new(HMode::Mix, r.next()),
            1 => CtlBuildHasher::new(HMode::Sip, r.next()),
            _ => CtlBuildHasher::identity(),
        };
        if i < 15 {
            // round trips for precision b
            let b = 4 + i;
            let m = 1usize << b;
            rep.config(format!("roundtrip(b={})", b));
            round_trip(b, bh, vec![0; m], &mut r, rep, "empty");
            let mut sparse = vec![0u8; m];
            for _ in 0..3 {
                sparse[r.below(m as u64) as usize] = 1 + r.below(40) as u8;
            }
            round_trip(b, bh, sparse, &mut r, rep, "sparse");
            let dense: Vec<u8> = (0..m).map(|_| 1 + r.below((64 - b) as u64) as u8).collect();
            round_trip(b, bh, dense, &mut r, rep, "dense");
            round_trip(b, bh, vec![255; m], &mut r, rep, "all-255");
            let arb: Vec<u8> = (0..m).map(|_| r.next() as u8).collect();
            round_trip(b, bh, arb, &mut r, rep, "arbitrary-bytes");
            // filled through add()
            let mut h = Hll::with_hash(b, bh);
            for _ in 0..(m / 2 + 3) {
                h.add(&r.next());
            }
            round_trip(b, bh, h.registers().to_vec(), &mut r, rep, "added");
            round_trip_generic(b, UnitBh, "null (unit struct)", &mut r, rep);
            round_trip_generic(b, OptBh(None), "null (newtype of None)", &mut r, rep);
            round_trip_generic(b, OptBh(Some(r.next())), "a number (newtype of Some)", &mut r, rep);
            round_trip_generic(b, PairBh(r.next(), r.next() as u32), "an array (tuple struct)", &mut r, rep);
        } else if i < 15 + bs_bad.len() {
            // invalid b x lengths
            let bv = &bs_bad[i - 15];
            rep.config(format!("bad-b({})", bv));
            let nominal = bv.as_u64().filter(|v| *v < 22).map(|v| 1usize << v);
            let mut lens = vec![0usize, 1, 15, 16, 17, 32, 1 << 18, 1 << 20];
            if let Some(n) = nominal {
                lens.extend([n.saturating_sub(1), n, n + 1, n / 2, n * 2]);
            }
            for len in lens {
                for fill in [0u8, 7] {
                    try_doc(&doc(&regs_json(len, fill), bv, &bh), false, rep, &format!("b={} with {} registers", bv, len));
                }
            }
        } else if i < n_grid {
            // valid b x wrong lengths, and the valid document itself
            let b = 4 + (i - 15 - bs_bad.len());
            let m = 1usize << b;
            rep.config(format!("len-mismatch(b={})", b));
            try_doc(&doc(&regs_json(m, 5), &json!(b), &bh), true, rep, &format!("valid document b={}", b));
            for len in [0usize, 1, m - 1, m + 1, m / 2, m * 2, 3 * m, 5 * m, 6 * m, 3 * m / 2, 16, 48, 1 << 18, (1 << 18) + 1] {
                if len == m {
                    continue;
                }
                for fill in [0u8, 9] {
                    try_doc(&doc(&regs_json(len, fill), &json!(b), &bh), false, rep, &format!("b={} with {} registers", b, len));
                }
            }
            // b values that alias the valid precision when shifted or truncated (64+b, 128+b, 2^32+b,
            // 2^32*k+b) together with exactly 2^b registers
            for bb in [64 + b as u64, 128 + b as u64, 256 + b as u64, (1u64 << 32) + b as u64, (1u64 << 33) + b as u64, (1u64 << 63) + b as u64, u64::MAX - 63 + b as u64] {
                try_doc(&doc(&regs_json(m, 5), &json!(bb), &bh), false, rep, &format!("b={} (aliases {}) with {} registers", bb, b, m));
            }
            // field-level corruptions
            let good_regs = regs_json(m, 3);
            let bhs = serde_json::to_string(&bh).unwrap();
            let docs: Vec<(String, bool, &str)> = vec![
                (format!("{{\"b\":{},\"buildhasher\":{}}}", b, bhs), false, "missing registers"),
                (format!("{{\"registers\":{},\"buildhasher\":{}}}", good_regs, bhs), false, "missing b"),
                (format!("{{\"registers\":{},\"b\":{}}}", good_regs, b), false, "missing buildhasher"),
                (format!("{{\"registers\":{},\"b\":{},\"b\":{},\"buildhasher\":{}}}", good_regs, b, b, bhs), false, "duplicate b"),
                (format!("{{\"registers\":{},\"registers\":{},\"b\":{},\"buildhasher\":{}}}", good_regs, good_regs, b, bhs), false, "duplicate registers"),
                (format!("{{\"registers\":{},\"b\":{},\"buildhasher\":{},\"extra\":1}}", good_regs, b, bhs), false, "unknown field"),
                (format!("{{\"b\":{},\"buildhasher\":{},\"registers\":{}}}", b, bhs, good_regs), true, "reordered fields"),
                (format!("{{\"registers\":{},\"b\":{},\"buildhasher\":{}}}", regs_json(m, 3).to_string().replacen("1,", "256,", 1), b, bhs), false, "register value 256"),
                (format!("{{\"registers\":{},\"b\":{},\"buildhasher\":{}}}", regs_json(m, 3).to_string().replacen("1,", "-1,", 1), b, bhs), false, "register value -1"),
                (format!("{{\"registers\":\"{}\",\"b\":{},\"buildhasher\":{}}}", "x".repeat(m), b, bhs), false, "registers as string"),
                (format!("[{},{},{}]", good_regs, b, bhs), true, "sequence form"),
                ("{}".to_string(), false, "empty object"),
                ("null".to_string(), false, "null"),
            ];
            for (d, valid, what) in docs {
                // the sequence form is whatever the implementation makes of it: only invariants are required
                if what == "sequence form" {
                    rep.evaluations += 1;
                    if let Ok(Ok(mut h)) = guarded(|| serde_json::from_str::<Hll>(&d)) {
                        if let Some((sig, w)) = exercise(&mut h) {
                            rep.violation(sig, format!("sequence form: {}", w), json!({"document_head": d.chars().take(200).collect::<String>()}));
                        }
                    }
                    continue;
                }
                try_doc(&d, valid, rep, what);
            }
            // sequence (array) form with invalid contents: whatever the implementation makes of the
            // array form, it must not yield a sketch that breaks the invariants
            for (regs, bb) in [(regs_json(3, 1), json!(b)), (regs_json(m, 1), json!(40)), (regs_json(m / 2, 1), json!(b)), (regs_json(16, 1), json!(3)), (regs_json(m, 1), json!(b + 1)), (regs_json(0, 0), json!(b))] {
                let d = format!("[{},{},{}]", regs, bb, bhs);
                try_doc(&d, false, rep, "sequence form with invalid b / length");
            }
            // ... including b outside 4..=18 with exactly 2^b registers (self-consistent but invalid)
            for bb in [0usize, 1, 2, 3, 19, 20] {
                let d = format!("[{},{},{}]", regs_json(1 << bb, 1), bb, bhs);
                try_doc(&d, false, rep, "sequence form with b outside 4..=18 and 2^b registers");
                let d = format!("[{},{},{}]", bb, regs_json(1 << bb, 1), bhs);
                try_doc(&d, false, rep, "sequence form (b first) with b outside 4..=18 and 2^b registers");
            }
            let good = doc(&good_regs, &json!(b), &bh);
            for cut in [1usize, good.len() / 2, good.len() - 1, good.len() - 2] {
                try_doc(&good[..cut], false, rep, "truncated text");
            }
        } else {
            // random structural mutations of valid documents
            for _ in 0..100 {
                let b = 4 + r.below(9) as usize;
                let m = 1usize << b;
                let mut v: Value = json!({"registers": regs_json(m, 1 + r.below(30) as u8), "b": b, "buildhasher": bh});
                let n_mut = 1 + r.below(2);
                for _ in 0..n_mut {
                    let choice = r.below(9);
                    if choice == 0 {
                        v["b"] = json!(r.below(24));
                        continue;
                    }
                    if choice == 5 {
                        v["b"] = json!(if r.chance(0.5) { b + 1 } else { b - 1 });
                        continue;
                    }
                    if choice == 8 {
                        let f = *r.pick(&["registers", "b", "buildhasher"]);
                        v.as_object_mut().unwrap().remove(f);
                        continue;
                    }
                    if choice == 7 {
                        v["registers"] = json!([]);
                        continue;
                    }
                    let Some(regs) = v.get_mut("registers").and_then(|x| x.as_array_mut()) else {
                        continue;
                    };
                    match choice {
                        1 => {
                            if !regs.is_empty() {
                                let k = 1 + r.below(regs.len() as u64) as usize;
                                regs.truncate(regs.len() - k);
                            }
                        }
                        2 => {
                            for _ in 0..(1 + r.below(m as u64 + 2)) {
                                regs.push(json!(r.below(64)));
                            }
                        }
                        3 => {
                            if !regs.is_empty() {
                                let j = r.below(regs.len() as u64) as usize;
                                regs[j] = json!(256 + r.below(1000));
                            }
                        }
                        4 => {
                            // double / halve the register array keeping b
                            if r.chance(0.5) {
                                let c = regs.clone();
                                regs.extend(c);
                            } else {
                                let l = regs.len() / 2;
                                regs.truncate(l);
                            }
                        }
                        _ => {
                            if !regs.is_empty() {
                                let j = r.below(regs.len() as u64) as usize;
                                regs[j] = json!(r.below(256)); // still valid: any byte is a register
                            }
                        }
                    }
                }
                // mutations can cancel out (e.g. b+1 and doubled array): recompute validity
                let valid_now = match (v.get("b").and_then(|x| x.as_u64()), v.get("registers").and_then(|x| x.as_array()), v.get("buildhasher")) {
                    (Some(bb), Some(regs), Some(_)) => (4..=18).contains(&bb) && regs.len() == (1usize << bb) && regs.iter().all(|x| x.as_u64().map(|y| y < 256).unwrap_or(false)),
                    _ => false,
                };
                try_doc(&v.to_string(), valid_now, rep, "random structural mutation");
            }
        }
        if rep.want_sample() && i == 15 {
            rep.sample(json!({"document": doc(&regs_json(3, 1), &json!(3), &bh), "expected": "Err or invariants hold"}));
        }
        if rep.want_sample() && i == 0 {
            rep.sample(json!({"round_trip": "b=4", "registers": "empty, sparse, dense, all-255, arbitrary bytes, filled via add()", "continuation": "120 adds/merges compared step by step"}));
        }
    })
}
