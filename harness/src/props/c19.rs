//! C19 — clear() restores a fresh structure and clone() is an independent copy.
use crate::infra::flt::*;
use crate::infra::hashers::{CtlBuildHasher, HMode};
use crate::infra::rngs::{CtlRng, FastRng};
use crate::infra::td::*;
use crate::infra::*;
use crate::props::c12;
use pdatastructs::countminsketch::CountMinSketch;
use pdatastructs::hyperloglog::HyperLogLog;
use pdatastructs::reservoirsampling::ReservoirSampling;
use pdatastructs::topk::cmsheap::CMSHeap;
use pdatastructs::topk::lossycounter::LossyCounter;
use serde_json::json;
use std::cell::Cell;
use std::rc::Rc;

pub const RULE: &str = "lock-step differential execution for all nine structures (TDigest with K0..K3, CMS with u32 counters): (1) pre-clear history of 1..1e4 operations incl. failed inserts/unions, clear(), then the cleared structure and a freshly constructed one (same configuration; eviction/sampling RNG rewound to the same stream) receive the same continuation of 1..2000 operations and every observable and every return value is compared after every step (bit-exact for floats); (2) clones at random points: equal observables at clone time, clone unchanged by mutation of the original and vice versa; (3) is_empty() right after creation/clear and after the first successful add; configuration getters (k, m, w, d, b, width, epsilon, delta, ...) are part of the compared observables; 15 % of the T-digest clear runs first poison the digest with an operation that panics half-way. non-trivial = run whose pre-clear history had >= 10 operations and whose continuation had >= 10; distinct = (structure, config, seed) tuples";
pub const ASSUMPTIONS: &[&str] = &[
    "the counter RNG gives the cleared structure the same RNG stream as the fresh one; clone tests use an ordinary seeded RNG",
    "is_empty is asserted only right after creation/clear and after a successful add with no deletes in between",
];

/// a structure under differential test: operations are driven by random words
trait Obj {
    fn name(&self) -> String;
    /// apply the operation encoded by `w`; returns a code of the call's return value
    fn apply(&mut self, w: u64) -> u64;
    /// did the last apply add something for sure (used for the is_empty clause)?
    fn obs(&self) -> Vec<u64>;
    fn clear(&mut self);
    fn is_empty(&self) -> bool;
    fn boxed_clone(&self) -> Box<dyn Obj>;
    fn as_any(&self) -> &dyn std::any::Any;
    /// overwrite `self` (a used structure of the same type, usually configured differently) with
    /// `src` through the crate's `Clone::clone_from`; false = not available for this type
    fn clone_from_obj(&mut self, _src: &dyn Obj) -> bool {
        false
    }
    /// true if `apply(w)` is a plain successful add of a positive amount
    fn is_plain_add(&self, w: u64) -> bool;
    /// leave the structure in whatever state an operation that panics half-way leaves it in
    /// (default: nothing to do)
    fn poison(&mut self) {}
    /// false if the constructor used by `build` does not produce the state clear() leads to
    /// (a CMSHeap created on a sketch that has already counted data)
    fn fresh_comparable(&self) -> bool {
        true
    }
}

fn key(u: &[u64], w: u64) -> u64 {
    u[(w % u.len() as u64) as usize]
}

// ---- filters ---------------------------------------------------------------------------------

struct FilterObj<F: Flt, M: Fn() -> F + Clone + 'static> {
    f: F,
    make: M,
    u: Rc<Vec<u64>>,
    label: String,
    ctr: Option<Rc<Cell<u64>>>,
}

impl<F: Flt + 'static, M: Fn() -> F + Clone + 'static> Obj for FilterObj<F, M> {
    fn name(&self) -> String {
        self.label.clone()
    }
    fn apply(&mut self, w: u64) -> u64 {
        let op = w >> 60;
        let k = key(&self.u, w);
        if op == 15 {
            // union with a small filter
            let mut o = (self.make)();
            let saved = self.ctr.as_ref().map(|c| c.get());
            for j in 0..3 {
                let _ = o.insert(key(&self.u, w.rotate_left(7 * j + 3)));
            }
            if let (Some(c), Some(s)) = (&self.ctr, saved) {
                c.set(s); // building `other` must not consume the structure's RNG stream
            }
            match self.f.union(&o) {
                Ok(()) => 100,
                Err(()) => 101,
            }
        } else if op >= 12 && self.f.has_delete() {
            match self.f.delete(k) {
                Some(true) => 10,
                _ => 11,
            }
        } else {
            match self.f.insert(k) {
                Ok(true) => 1,
                Ok(false) => 2,
                Err(()) => 3,
            }
        }
    }
    fn obs(&self) -> Vec<u64> {
        let o = c12::observe(&self.f, &self.u);
        let mut v = vec![Flt::len(&self.f) as u64, Flt::is_empty(&self.f) as u64];
        v.push(fnv(self.f.dump().to_string().split("\"slots\"").next().unwrap_or("").as_bytes()));
        let d = format!("{:?}", o);
        v.push(fnv(d.as_bytes()));
        v
    }
    fn clear(&mut self) {
        self.f.clear();
        if let Some(c) = &self.ctr {
            c.set(0);
        }
    }
    fn is_empty(&self) -> bool {
        Flt::is_empty(&self.f)
    }
    fn boxed_clone(&self) -> Box<dyn Obj> {
        Box::new(FilterObj { f: self.f.try_clone().unwrap(), make: self.make.clone(), u: Rc::clone(&self.u), label: self.label.clone(), ctr: self.ctr.clone() })
    }
    fn as_any(&self) -> &dyn std::any::Any {
        self
    }
    fn clone_from_obj(&mut self, src: &dyn Obj) -> bool {
        let Some(s) = src.as_any().downcast_ref::<Self>() else { return false };
        if !self.f.try_clone_from(&s.f) {
            return false;
        }
        self.make = s.make.clone();
        self.u = Rc::clone(&s.u);
        self.label = s.label.clone();
        self.ctr = s.ctr.clone();
        true
    }
    fn is_plain_add(&self, w: u64) -> bool {
        (w >> 60) < 12
    }
}

// ---- CMS -------------------------------------------------------------------------------------

type Cms = CountMinSketch<u64, u32, CtlBuildHasher>;
#[derive(Clone)]
struct CmsObj {
    c: Cms,
    u: Rc<Vec<u64>>,
    w: usize,
    d: usize,
    bh: CtlBuildHasher,
    total: u64,
}
impl Obj for CmsObj {
    fn name(&self) -> String {
        format!("cms(w={},d={},{})", self.w, self.d, self.bh.name())
    }
    fn apply(&mut self, w: u64) -> u64 {
        if self.total > 1_000_000 {
            return 0; // stay far from u32 overflow (documented panic)
        }
        let k = key(&self.u, w);
        match w >> 61 {
            0..=4 => {
                self.total += 1;
                self.c.add(&k) as u64
            }
            5 | 6 => {
                let n = 1 + ((w >> 40) & 7) as u32;
                self.total += n as u64;
                self.c.add_n(&k, &n) as u64
            }
            _ => {
                let mut o = Cms::with_params_and_hasher(self.w, self.d, self.bh);
                o.add(&k);
                o.add(&key(&self.u, w.rotate_left(9)));
                self.total += 2;
                self.c.merge(&o);
                7
            }
        }
    }
    fn obs(&self) -> Vec<u64> {
        let mut v: Vec<u64> = self.u.iter().map(|k| self.c.query_point(k) as u64).collect();
        v.push(self.c.is_empty() as u64);
        v.push(self.c.w() as u64);
        v.push(self.c.d() as u64);
        v
    }
    fn clear(&mut self) {
        self.c.clear();
        self.total = 0;
    }
    fn is_empty(&self) -> bool {
        self.c.is_empty()
    }
    fn boxed_clone(&self) -> Box<dyn Obj> {
        Box::new(self.clone())
    }
    fn as_any(&self) -> &dyn std::any::Any {
        self
    }
    fn clone_from_obj(&mut self, src: &dyn Obj) -> bool {
        let Some(s) = src.as_any().downcast_ref::<Self>() else { return false };
        self.c.clone_from(&s.c);
        self.u = s.u.clone();
        self.w = s.w.clone();
        self.d = s.d.clone();
        self.bh = s.bh.clone();
        self.total = s.total.clone();
        true
    }
    fn is_plain_add(&self, _w: u64) -> bool {
        self.total <= 1_000_000
    }
}

// ---- HLL -------------------------------------------------------------------------------------

type Hll = HyperLogLog<u64, CtlBuildHasher>;
#[derive(Clone)]
struct HllObj {
    h: Hll,
    b: usize,
    bh: CtlBuildHasher,
}
impl Obj for HllObj {
    fn name(&self) -> String {
        format!("hll(b={},{})", self.b, self.bh.name())
    }
    fn apply(&mut self, w: u64) -> u64 {
        if w >> 61 == 7 {
            let mut o = Hll::with_hash(self.b, self.bh);
            o.add(&w);
            o.add(&w.rotate_left(13));
            self.h.merge(&o);
            1
        } else {
            self.h.add(&w);
            0
        }
    }
    fn obs(&self) -> Vec<u64> {
        vec![fnv(self.h.registers()), self.h.count() as u64, self.h.is_empty() as u64, self.h.b() as u64, self.h.m() as u64]
    }
    fn clear(&mut self) {
        self.h.clear()
    }
    fn is_empty(&self) -> bool {
        self.h.is_empty()
    }
    fn boxed_clone(&self) -> Box<dyn Obj> {
        Box::new(self.clone())
    }
    fn as_any(&self) -> &dyn std::any::Any {
        self
    }
    fn clone_from_obj(&mut self, src: &dyn Obj) -> bool {
        let Some(s) = src.as_any().downcast_ref::<Self>() else { return false };
        self.h.clone_from(&s.h);
        self.b = s.b.clone();
        self.bh = s.bh.clone();
        true
    }
    fn is_plain_add(&self, _w: u64) -> bool {
        // a hash whose rank is >= 1 always raises a register from 0; always true for add
        true
    }
}

// ---- T-digest --------------------------------------------------------------------------------

struct TdObj {
    t: Box<dyn Td>,
    sf: Sf,
    delta: f64,
    backlog: usize,
}
fn word_value(w: u64) -> f64 {
    // value in about [-1000, 1000] with ties
    let v = ((w >> 8) % 200_001) as f64 / 100.0 - 1000.0;
    if w & 3 == 0 {
        v.round()
    } else {
        v
    }
}
impl Obj for TdObj {
    fn name(&self) -> String {
        format!("tdigest({},delta={},backlog={})", self.sf.name(), self.delta, self.backlog)
    }
    fn apply(&mut self, w: u64) -> u64 {
        let x = word_value(w);
        match w >> 60 {
            0..=9 => {
                self.t.insert(x);
                0
            }
            10..=12 => {
                let wt = 1.0 + ((w >> 30) % 50) as f64 * 0.5;
                self.t.insert_weighted(x, wt);
                1
            }
            13 => {
                if self.t.is_empty() {
                    2
                } else {
                    self.t.quantile(((w >> 20) % 1001) as f64 / 1000.0).to_bits()
                }
            }
            14 => self.t.cdf(x).to_bits(),
            _ => self.t.count().to_bits(),
        }
    }
    fn obs(&self) -> Vec<u64> {
        let t = &self.t;
        let mut v = vec![t.is_empty() as u64, t.min().to_bits(), t.max().to_bits(), t.count().to_bits(), t.sum().to_bits(), t.n_centroids() as u64, t.delta().to_bits(), t.max_backlog_size() as u64];
        if !t.is_empty() {
            for q in [0.0, 0.01, 0.1, 0.25, 0.5, 0.75, 0.9, 0.99, 1.0] {
                v.push(t.quantile(q).to_bits());
            }
            for x in [-500.0, -1.0, 0.0, 3.5, 700.0] {
                v.push(t.cdf(x).to_bits());
            }
            v.push(t.mean().to_bits());
        }
        v
    }
    fn clear(&mut self) {
        self.t.clear()
    }
    fn is_empty(&self) -> bool {
        self.t.is_empty()
    }
    fn boxed_clone(&self) -> Box<dyn Obj> {
        Box::new(TdObj { t: self.t.boxed_clone(), sf: self.sf, delta: self.delta, backlog: self.backlog })
    }
    fn as_any(&self) -> &dyn std::any::Any {
        self
    }
    fn is_plain_add(&self, w: u64) -> bool {
        (w >> 60) <= 12
    }
    fn poison(&mut self) {
        // +-1e308 with weight 10: the products overflow to +-inf, fusing them gives a NaN mean and
        // the next compression panics inside its sort (observed on the pinned tree); the panic is
        // caught here, the digest is then cleared by the caller
        let t = &mut self.t;
        let _ = guarded(|| {
            t.insert_weighted(1e308, 10.0);
            t.insert_weighted(-1e308, 10.0);
            let _ = t.count(); // fuses +inf and -inf sums into a NaN centroid (small delta)
            t.insert(1.0);
            let _ = t.count(); // the next compression sorts by mean and panics on the NaN
            t.insert(2.0);
            let _ = t.quantile(0.5);
        });
    }
}

// ---- reservoir -------------------------------------------------------------------------------

#[derive(Clone)]
struct ResObj {
    s: ReservoirSampling<u64, CtlRng>,
    k: usize,
    ctr: Option<Rc<Cell<u64>>>,
}
impl Obj for ResObj {
    fn name(&self) -> String {
        format!("reservoir(k={})", self.k)
    }
    fn apply(&mut self, w: u64) -> u64 {
        self.s.add(w);
        0
    }
    fn obs(&self) -> Vec<u64> {
        let mut v = self.s.reservoir().clone();
        v.push(self.s.i() as u64);
        v.push(self.s.is_empty() as u64);
        v.push(self.s.k() as u64);
        v
    }
    fn clear(&mut self) {
        self.s.clear();
        if let Some(c) = &self.ctr {
            c.set(0);
        }
    }
    fn is_empty(&self) -> bool {
        self.s.is_empty()
    }
    fn boxed_clone(&self) -> Box<dyn Obj> {
        Box::new(self.clone())
    }
    fn as_any(&self) -> &dyn std::any::Any {
        self
    }
    fn clone_from_obj(&mut self, src: &dyn Obj) -> bool {
        let Some(s) = src.as_any().downcast_ref::<Self>() else { return false };
        self.s.clone_from(&s.s);
        self.k = s.k.clone();
        self.ctr = s.ctr.clone();
        true
    }
    fn is_plain_add(&self, _w: u64) -> bool {
        true
    }
}

// ---- lossy counter ---------------------------------------------------------------------------

#[derive(Clone)]
struct LossyObj {
    l: LossyCounter<u64>,
    u: Rc<Vec<u64>>,
}
impl Obj for LossyObj {
    fn name(&self) -> String {
        format!("lossy(width={})", self.l.width())
    }
    fn apply(&mut self, w: u64) -> u64 {
        let k = if w >> 62 == 0 { w } else { key(&self.u, w) };
        self.l.add(k) as u64
    }
    fn obs(&self) -> Vec<u64> {
        let mut a: Vec<u64> = self.l.query(0.0).collect();
        a.sort_unstable();
        let mut b: Vec<u64> = self.l.query(0.1).collect();
        b.sort_unstable();
        let mut v = vec![self.l.n() as u64, a.len() as u64, b.len() as u64, self.l.width() as u64, self.l.epsilon().to_bits()];
        v.push(fnv(&a.iter().flat_map(|x| x.to_le_bytes()).collect::<Vec<u8>>()));
        v.push(fnv(&b.iter().flat_map(|x| x.to_le_bytes()).collect::<Vec<u8>>()));
        v
    }
    fn clear(&mut self) {
        self.l.clear()
    }
    fn is_empty(&self) -> bool {
        self.l.n() == 0
    }
    fn boxed_clone(&self) -> Box<dyn Obj> {
        Box::new(self.clone())
    }
    fn as_any(&self) -> &dyn std::any::Any {
        self
    }
    fn clone_from_obj(&mut self, src: &dyn Obj) -> bool {
        let Some(s) = src.as_any().downcast_ref::<Self>() else { return false };
        self.l.clone_from(&s.l);
        self.u = s.u.clone();
        true
    }
    fn is_plain_add(&self, _w: u64) -> bool {
        true
    }
}

// ---- CMS heap --------------------------------------------------------------------------------

#[derive(Clone)]
struct HeapObj {
    h: CMSHeap<u64>,
    u: Rc<Vec<u64>>,
    k: usize,
    warm: bool,
}
impl Obj for HeapObj {
    fn name(&self) -> String {
        format!("cmsheap(k={}{})", self.k, if self.warm { ",created on a warm sketch" } else { "" })
    }
    fn fresh_comparable(&self) -> bool {
        !self.warm
    }
    fn apply(&mut self, w: u64) -> u64 {
        self.h.add(key(&self.u, w));
        0
    }
    fn obs(&self) -> Vec<u64> {
        let mut v: Vec<u64> = self.h.iter().collect();
        v.push(self.h.is_empty() as u64);
        v.push(self.h.k() as u64);
        v
    }
    fn clear(&mut self) {
        self.h.clear()
    }
    fn is_empty(&self) -> bool {
        self.h.is_empty()
    }
    fn boxed_clone(&self) -> Box<dyn Obj> {
        Box::new(self.clone())
    }
    fn as_any(&self) -> &dyn std::any::Any {
        self
    }
    fn clone_from_obj(&mut self, src: &dyn Obj) -> bool {
        let Some(s) = src.as_any().downcast_ref::<Self>() else { return false };
        self.h.clone_from(&s.h);
        self.u = s.u.clone();
        self.k = s.k.clone();
        self.warm = s.warm.clone();
        true
    }
    fn is_plain_add(&self, _w: u64) -> bool {
        true
    }
}

// ---------------------------------------------------------------------------------------------

/// build a structure of family `fam`; `counter_rng` selects the rewindable RNG (clear tests)
fn build(fam: usize, r: &mut FastRng, counter_rng: bool) -> Box<dyn FnMut() -> Box<dyn Obj>> {
    let usz = 8 + r.below(120) as usize;
    let u: Rc<Vec<u64>> = Rc::new((0..usz).map(|_| r.next()).collect());
    let bh = match r.below(4) {
        0 => CtlBuildHasher::new(HMode::Sip, r.next()),
        1 => CtlBuildHasher::new(HMode::Collide(6), r.next()),
        _ => CtlBuildHasher::new(HMode::Mix, r.next()),
    };
    let seed = r.next();
    match fam {
        0 => {
            let cfg = BloomCfg { m: *r.pick(&[7usize, 64, 1000, 5000]), k: 1 + r.below(7) as usize, bh };
            Box::new(move || {
                let c = cfg.clone();
                let c2 = cfg.clone();
                Box::new(FilterObj { f: c.make(), make: move || c2.make(), u: Rc::clone(&u), label: cfg.label(), ctr: None })
            })
        }
        1 => {
            let bsz = *r.pick(&[2usize, 3, 4, 8]);
            let nb = 1usize << (1 + r.below(4));
            let l = *r.pick(&[2usize, 3, 5, 8, 16, 64]);
            Box::new(move || {
                let (rng, ctr) = if counter_rng {
                    let (g, c) = CtlRng::counter(seed);
                    (g, Some(c))
                } else {
                    (CtlRng::fast(seed), None)
                };
                let f: Cuckoo = pdatastructs::filters::cuckoofilter::CuckooFilter::with_params_and_hash(rng, bsz, nb, l, bh);
                let mk = move || -> Cuckoo { pdatastructs::filters::cuckoofilter::CuckooFilter::with_params_and_hash(CtlRng::fast(seed ^ 1), bsz, nb, l, bh) };
                Box::new(FilterObj { f, make: mk, u: Rc::clone(&u), label: format!("cuckoo(b={},n={},l={},{})", bsz, nb, l, bh.name()), ctr })
            })
        }
        2 => {
            let cfg = QfCfg { q: 1 + r.below(6) as usize, r: *r.pick(&[1usize, 2, 4, 8, 16]), bh };
            Box::new(move || {
                let c = cfg.clone();
                let c2 = cfg.clone();
                Box::new(FilterObj { f: c.make(), make: move || c2.make(), u: Rc::clone(&u), label: cfg.label(), ctr: None })
            })
        }
        3 => {
            let (w, d) = *r.pick(&[(1usize, 1usize), (3, 2), (7, 3), (16, 4), (272, 3)]);
            Box::new(move || Box::new(CmsObj { c: Cms::with_params_and_hasher(w, d, bh), u: Rc::clone(&u), w, d, bh, total: 0 }))
        }
        4 => {
            let b = 4 + r.below(9) as usize;
            Box::new(move || Box::new(HllObj { h: Hll::with_hash(b, bh), b, bh }))
        }
        5..=8 => {
            let sf = ALL_SF[fam - 5];
            let delta = *r.pick(&[1.1, 2.0, 5.0, 10.0, 20.0, 100.0, 1000.0]);
            let backlog = *r.pick(&[0usize, 1, 10, 100, 1000]);
            Box::new(move || Box::new(TdObj { t: make_td(sf, delta, backlog), sf, delta, backlog }))
        }
        9 => {
            let k = *r.pick(&[1usize, 2, 3, 10, 64]);
            Box::new(move || {
                let (rng, ctr) = if counter_rng {
                    let (g, c) = CtlRng::counter(seed);
                    (g, Some(c))
                } else {
                    (CtlRng::fast(seed), None)
                };
                Box::new(ResObj { s: ReservoirSampling::new(k, rng), k, ctr })
            })
        }
        10 => {
            // any width >= 1; clear() must keep it (1/(1/w) rounds up for some widths, e.g. 49, 98, 103)
            let width = match r.below(4) {
                0 => *r.pick(&[1usize, 2, 3, 10, 100]),
                1 => *r.pick(&[49usize, 98, 103, 107, 161, 187, 196, 197]),
                _ => 1 + r.below(400) as usize,
            };
            let eps = *r.pick(&[0.5, 0.3, 0.07, 0.011, 0.003]);
            let by_eps = r.chance(0.3);
            Box::new(move || Box::new(LossyObj { l: if by_eps { LossyCounter::with_epsilon(eps) } else { LossyCounter::with_width(width) }, u: Rc::clone(&u) }))
        }
        _ => {
            let k = *r.pick(&[1usize, 2, 3, 10]);
            let (w, d) = *r.pick(&[(1usize, 1usize), (2, 2), (16, 4), (272, 3)]);
            // sometimes the heap is created on a sketch that has already counted data: nothing has been
            // added to the heap itself, so it must be empty
            let warm = r.chance(0.3);
            Box::new(move || {
                let mut cms = CountMinSketch::with_params(w, d);
                if warm {
                    for x in 0..20u64 {
                        cms.add(&x);
                    }
                }
                Box::new(HeapObj { h: CMSHeap::new(k, cms), u: Rc::clone(&u), k, warm })
            })
        }
    }
}

const N_FAM: usize = 12;

fn first_diff(a: &[u64], b: &[u64]) -> String {
    if a.len() != b.len() {
        return format!("observable vectors differ in length ({} vs {})", a.len(), b.len());
    }
    match (0..a.len()).find(|i| a[*i] != b[*i]) {
        Some(i) => format!("observable #{} differs: {:#x} vs {:#x}", i, a[i], b[i]),
        None => "equal".into(),
    }
}

fn clear_test(ctx: &Ctx, i: usize, rep: &mut Report) {
    let fam = i % N_FAM;
    let mut r = FastRng::new(ctx.sub_seed(&[1, i as u64]));
    let mut mk = build(fam, &mut r, true);
    let pre_n = match r.below(6) {
        0 => 1 + r.below(5) as usize,
        1..=3 => 10 + r.below(300) as usize,
        4 => 300 + r.below(3000) as usize,
        _ => 1000 + r.below(ctx.tier.pick(10_000, 100_000)) as usize,
    };
    let long_cont = r.chance(0.2);
    let cont_n = 1 + r.below(if long_cont { 2000 } else { 150 }) as usize;
    let wseed = r.next();
    let poison = r.chance(0.15);
    let mut name = String::new();
    let res = guarded(|| -> Option<(String, String)> {
        let mut s = mk();
        name = s.name();
        if !s.is_empty() {
            return Some(("C19/is_empty/fresh-not-empty".into(), "a freshly constructed structure is not empty".into()));
        }
        let mut wr = FastRng::new(wseed);
        let mut added = false;
        for step in 0..pre_n {
            let w = wr.next();
            let plain = s.is_plain_add(w);
            let code = s.apply(w);
            if step == 0 && plain && code != 3 && s.is_empty() {
                return Some(("C19/is_empty/empty-after-add".into(), "is_empty() is true after the first successful add".into()));
            }
            added = added || plain;
        }
        let _ = added;
        // an operation that dies half-way (a panic inside a T-digest compression on overflowing
        // products) is a failed operation too: clear() must still give a fresh structure
        if poison {
            s.poison();
        }
        s.clear();
        let mut f = mk();
        if !s.is_empty() {
            return Some(("C19/is_empty/not-empty-after-clear".into(), format!("is_empty() is false right after clear() ({} pre-clear operations)", pre_n)));
        }
        if !s.fresh_comparable() {
            return None;
        }
        let (os, of) = (s.obs(), f.obs());
        if os != of {
            return Some(("C19/clear/differs-immediately".into(), format!("after clear() ({} pre-clear operations) the structure differs from a fresh one: {}", pre_n, first_diff(&os, &of))));
        }
        // same continuation on both (the counter RNG of both starts at 0 again)
        let mut wr = FastRng::new(wseed ^ 0xC0);
        for step in 0..cont_n {
            let w = wr.next();
            let (cs, cf) = (s.apply(w), f.apply(w));
            if cs != cf {
                return Some(("C19/clear/continuation-return-value".into(), format!("{} pre-clear operations, continuation step {}: the cleared structure returned {:#x}, the fresh one {:#x}", pre_n, step + 1, cs, cf)));
            }
            // full observation after every step for short continuations, sparser for long ones
            if cont_n <= 200 || step % 37 == 0 || step + 1 == cont_n {
                let (os, of) = (s.obs(), f.obs());
                if os != of {
                    return Some(("C19/clear/continuation-diverges".into(), format!("{} pre-clear operations, continuation step {}: cleared and fresh structure differ: {}", pre_n, step + 1, first_diff(&os, &of))));
                }
            }
        }
        None
    });
    rep.evaluations += (pre_n + cont_n) as u64;
    rep.count("clear_runs", 1);
    rep.config(name.split('(').next().unwrap_or("?").to_string());
    match res {
        Ok(None) => {
            if pre_n >= 10 && cont_n >= 10 {
                let mut h = CaseHash::new(&name);
                h.push(i as u64);
                rep.nontrivial(h.0);
                if rep.want_sample() && i % 97 == 0 {
                    rep.sample(json!({"test": "clear", "structure": name, "pre_clear_ops": pre_n, "continuation_ops": cont_n}));
                }
            }
        }
        Ok(Some((sig, what))) => {
            let famname = name.split('(').next().unwrap_or("?").to_string();
            rep.violation(format!("{}/{}", sig, famname), format!("{}: {}", name, what), json!({"structure": name, "pre_clear_ops": pre_n, "continuation_ops": cont_n, "item": i, "word_seed": wseed}))
        }
        Err(msg) => rep.violation(format!("C19/panic/{}", panic_class(&msg)), format!("{}: panicked: {}", name, msg), json!({"structure": name, "item": i})),
    }
}

fn clone_test(ctx: &Ctx, i: usize, rep: &mut Report) {
    let fam = i % N_FAM;
    let mut r = FastRng::new(ctx.sub_seed(&[2, i as u64]));
    let mut mk = build(fam, &mut r, false);
    let long = r.chance(0.2);
    let pre_n = r.below(if long { 3000 } else { 200 }) as usize;
    let mut_n = 1 + r.below(200) as usize;
    let wseed = r.next();
    let via_clone_from = r.chance(0.4);
    let target_long = r.chance(0.3);
    let target_n = r.below(if target_long { 3000 } else { 60 }) as usize;
    let mut r2 = FastRng::new(r.next());
    let mut mk2 = build(fam, &mut r2, false);
    let rep_clone_from = Cell::new(0u64);
    let mut name = String::new();
    let res = guarded(|| -> Option<(String, String)> {
        let mut s = mk();
        name = s.name();
        let mut wr = FastRng::new(wseed);
        for _ in 0..pre_n {
            s.apply(wr.next());
        }
        let mut c = s.boxed_clone();
        let mut how = "clone()";
        if via_clone_from {
            // Clone::clone_from into a used structure of the same type that was built with another
            // random configuration (Clone's contract: equivalent to `*t = s.clone()`)
            let mut t = mk2();
            let mut tr = FastRng::new(wseed ^ 0x7A26E7);
            for _ in 0..target_n {
                t.apply(tr.next());
            }
            if t.clone_from_obj(&*s) {
                c = t;
                how = "clone_from()";
                rep_clone_from.set(rep_clone_from.get() + 1);
            }
        }
        let (os, oc) = (s.obs(), c.obs());
        if os != oc {
            return Some(("C19/clone/differs-at-clone-time".into(), format!("{} after {} operations answers differently: {}", how, pre_n, first_diff(&os, &oc))));
        }
        if how == "clone_from()" {
            // the copy made by clone_from and one made by clone() must stay in lock-step
            let mut c2 = s.boxed_clone();
            let mut cr = FastRng::new(wseed ^ 0xC0117);
            for step in 0..mut_n.min(120) {
                let w = cr.next();
                let (ra, rb) = (c.apply(w), c2.apply(w));
                let (oa, ob) = (c.obs(), c2.obs());
                if ra != rb || oa != ob {
                    return Some(("C19/clone/clone_from-copy-diverges".into(), format!("a copy made by clone_from() into a used structure and one made by clone() diverge at identical operation #{}: {}", step + 1, if ra != rb { format!("return code {} vs {}", ra, rb) } else { first_diff(&oa, &ob) })));
                }
            }
            // continue the independence checks with the lock-stepped copy made by clone_from
            let os_after = s.obs();
            if os_after != os {
                return Some(("C19/clone/original-changed-by-mutating-clone".into(), format!("operating on the clone_from() copy changed the original: {}", first_diff(&os, &os_after))));
            }
        }
        let oc = c.obs();
        // (i) mutate the original, the clone must not change
        for _ in 0..mut_n {
            s.apply(wr.next());
        }
        if r.chance(0.3) {
            s.clear();
        }
        let oc2 = c.obs();
        if oc2 != oc {
            return Some(("C19/clone/changed-by-mutating-original".into(), format!("after {} further operations on the original the clone changed: {}", mut_n, first_diff(&oc, &oc2))));
        }
        // (ii) mutate the clone, the original must not change
        let os2 = s.obs();
        for _ in 0..mut_n {
            c.apply(wr.next());
        }
        if r.chance(0.3) {
            c.clear();
        }
        let os3 = s.obs();
        if os3 != os2 {
            return Some(("C19/clone/original-changed-by-mutating-clone".into(), format!("after {} operations on the clone the original changed: {}", mut_n, first_diff(&os2, &os3))));
        }
        None
    });
    rep.evaluations += (pre_n + 2 * mut_n) as u64;
    rep.count("clone_runs", 1);
    rep.count("clone_from_runs", rep_clone_from.get());
    match res {
        Ok(None) => {
            if pre_n >= 10 {
                let mut h = CaseHash::new(&name);
                h.push(i as u64 ^ 0xC10E);
                rep.nontrivial(h.0);
                if rep.want_sample() && i % 97 == 0 {
                    rep.sample(json!({"test": "clone", "structure": name, "ops_before_clone": pre_n, "ops_after_clone": mut_n}));
                }
            }
        }
        Ok(Some((sig, what))) => {
            let famname = name.split('(').next().unwrap_or("?").to_string();
            rep.violation(format!("{}/{}", sig, famname), format!("{}: {}", name, what), json!({"structure": name, "ops_before_clone": pre_n, "item": i, "word_seed": wseed}))
        }
        Err(msg) => rep.violation(format!("C19/panic/{}", panic_class(&msg)), format!("{}: panicked: {}", name, msg), json!({"structure": name, "item": i})),
    }
}

pub fn run(ctx: &Ctx) -> Report {
    let n = match (ctx.tier, ctx.is_dbg()) {
        (Tier::Quick, false) => 12_000,
        (Tier::Quick, true) => 1200,
        (Tier::Thorough, false) => 240_000,
        (Tier::Thorough, true) => 12_000,
    };
    par_run(ctx, n, |i, rep| {
        // the T-digest carries debug assertions stricter than its contract (DESIGN 2.3): skip it in mondbg
        if ctx.profile == "mondbg" && (5..=8).contains(&((i / 2) % N_FAM)) {
            return;
        }
        if i % 2 == 0 {
            clear_test(ctx, i / 2, rep)
        } else {
            clone_test(ctx, i / 2, rep)
        }
    })
}
