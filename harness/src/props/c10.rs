//! C10 — CMSHeap returns the k most frequent elements up to sketch error.
use crate::infra::rngs::FastRng;
use crate::infra::*;
use pdatastructs::countminsketch::CountMinSketch;
use pdatastructs::topk::cmsheap::CMSHeap;
use serde_json::json;
use std::collections::{HashMap, HashSet};

pub const RULE: &str = "k in {1,2,3,5,10,50}; sketches (w,d) in {1x1,1x3,2x2,3x2,16x4,272x3,4096x4}; alphabets 2..1e4; streams with ties, rotating leaders, a late riser that must displace the minimum, bursts, Zipf; exact counts + a shadow CountMinSketch with identical parameters fed the same stream give E = max overestimate over seen elements; at every prefix (small alphabets, streams <= 3000) or every 50 items: iter() yields exactly min(k, distinct seen) distinct elements that were all added, and every missing element x has >= k other elements with true count >= true(x) - E (with E = 0: a set of k elements of maximal true frequency); is_empty iff nothing added; any panic in add is a violation (also with debug assertions on; also for k = usize::MAX and other huge k); in 30 % of the streams the heap is replaced by its clone at a random position and the oracle continues on the clone. non-trivial = stream with >= 1 displacement and >= 1 rejection; distinct = (k, sketch, stream kind, seed) tuples";
pub const ASSUMPTIONS: &[&str] = &["the shadow CountMinSketch uses the same default hasher as the one inside CMSHeap, so both make identical estimates"];

#[derive(Clone, Copy, Debug)]
enum Kind {
    Uniform,
    Ties,
    RotatingLeaders,
    LateRiser,
    Bursts,
    Zipf,
    TwoThenMany,
}

fn gen_stream(kind: Kind, n: usize, alphabet: u64, r: &mut FastRng) -> Vec<u64> {
    let mut v = Vec::with_capacity(n);
    match kind {
        Kind::Uniform => {
            for _ in 0..n {
                v.push(r.below(alphabet));
            }
        }
        Kind::Ties => {
            for i in 0..n {
                v.push(i as u64 % alphabet);
            }
        }
        Kind::RotatingLeaders => {
            let period = (n / 6).max(1);
            for i in 0..n {
                let leader = (i / period) as u64 % alphabet;
                v.push(if r.chance(0.5) { leader } else { r.below(alphabet) });
            }
        }
        Kind::LateRiser => {
            for i in 0..n {
                if i > n / 2 && r.chance(0.6) {
                    v.push(alphabet + 1); // unseen before the middle
                } else {
                    v.push(r.below(alphabet));
                }
            }
        }
        Kind::Bursts => {
            let mut cur = r.below(alphabet);
            for _ in 0..n {
                if r.chance(0.05) {
                    cur = r.below(alphabet);
                }
                v.push(if r.chance(0.8) { cur } else { r.below(alphabet) });
            }
        }
        Kind::Zipf => {
            for _ in 0..n {
                let u = 1.0 - r.f64();
                v.push(((u.powf(-1.0 / 1.1)).floor() as u64).min(alphabet));
            }
        }
        Kind::TwoThenMany => {
            for i in 0..n {
                v.push(if i < 2 { i as u64 } else { r.below(alphabet) });
            }
        }
    }
    v
}

fn item(ctx: &Ctx, i: usize, rep: &mut Report) {
    let mut r = FastRng::new(ctx.sub_seed(&[i as u64, ctx.is_dbg() as u64]));
    let k = [1usize, 2, 3, 5, 10, 50][i % 6];
    let (w, d) = [(1usize, 1usize), (1, 3), (2, 2), (3, 2), (16, 4), (272, 3), (4096, 4)][(i / 6) % 7];
    let kind = [Kind::Uniform, Kind::Ties, Kind::RotatingLeaders, Kind::LateRiser, Kind::Bursts, Kind::Zipf, Kind::TwoThenMany][(i / 42) % 7];
    let alphabet = *r.pick(&[2u64, 3, 4, 6, 11, 30, 64, 200, 10_000]);
    let long = r.chance(0.1);
    let n = if long { 3000 + r.below(ctx.tier.pick(30_000, 300_000)) as usize } else { 1 + r.below(800) as usize };
    let n = if ctx.is_dbg() { n.min(10_000) } else { n };
    let every = if n <= 3000 && alphabet <= 64 { 1 } else { 50 };
    let label = format!("cmsheap(k={},w={},d={},{:?},alphabet={},n={})", k, w, d, kind, alphabet, n);
    rep.config(format!("k={},w={},d={},{:?}", k, w, d, kind));
    let stream = gen_stream(kind, n, alphabet, &mut r);
    let snap0 = pdatastructs::verif::snapshot();
    let via_extend = r.chance(0.3);
    let clone_at: Option<usize> = if r.chance(0.3) { Some(r.below(n as u64) as usize) } else { None };
    let mut checks = 0u64;
    let mut collision_free_checks = 0u64;
    let mut max_e = 0usize;
    let res = guarded(|| -> Option<(String, String)> {
        let mut heap: CMSHeap<u64> = CMSHeap::new(k, CountMinSketch::with_params(w, d));
        let mut shadow: CountMinSketch<u64> = CountMinSketch::with_params(w, d);
        let mut truth: HashMap<u64, usize> = HashMap::new();
        if !heap.is_empty() || heap.iter().count() != 0 || heap.k() != k {
            return Some(("C10/fresh-state".into(), "fresh heap not empty".into()));
        }
        let mut in_heap_until = 0usize;
        for (idx, x) in stream.iter().enumerate() {
            beat();
            if clone_at == Some(idx) {
                // continue on a clone: a copy must carry everything later answers depend on
                heap = heap.clone();
            }
            if idx < in_heap_until {
                // already delivered to the heap as part of an extend() batch
            } else if via_extend && idx % 7 == 3 {
                // Extend is a loop of add(): batches of 1..9 stream elements (adjacent repeats of
                // tracked elements included), with and without an exact size hint
                let len = (1 + (x.wrapping_mul(0x9E37) >> 3) % 9) as usize;
                let end = (idx + len).min(n);
                if idx % 2 == 1 {
                    heap.extend(stream[idx..end].iter().copied().filter(|_| true));
                } else {
                    heap.extend(stream[idx..end].iter().copied());
                }
                in_heap_until = end;
            } else {
                heap.add(*x);
            }
            shadow.add(x);
            *truth.entry(*x).or_insert(0) += 1;
            let cnt = idx + 1;
            if cnt < in_heap_until {
                continue; // the heap is ahead of the oracle until the batch is accounted for
            }
            if heap.is_empty() {
                return Some(("C10/is_empty".into(), format!("is_empty() after {} adds", cnt)));
            }
            if cnt % every != 0 && cnt != n {
                continue;
            }
            checks += 1;
            let got: Vec<u64> = heap.iter().collect();
            let set: HashSet<u64> = got.iter().copied().collect();
            if set.len() != got.len() {
                return Some(("C10/duplicate-in-result".into(), format!("iter() yields a duplicate after {} adds: {:?}", cnt, got)));
            }
            let want = k.min(truth.len());
            if got.len() != want {
                return Some(("C10/result-size".into(), format!("iter() yields {} elements after {} adds but min(k, distinct seen) = {}", got.len(), cnt, want)));
            }
            for g in &got {
                if !truth.contains_key(g) {
                    return Some(("C10/phantom-element".into(), format!("iter() yields {} which was never added", g)));
                }
            }
            // E = largest overestimate of the sketch on this stream
            let mut e = 0usize;
            for (y, t) in &truth {
                let est = shadow.query_point(y);
                if est < *t {
                    return Some(("C10/shadow-underestimates(C02)".into(), "shadow sketch underestimates".into()));
                }
                e = e.max(est - *t);
            }
            max_e = max_e.max(e);
            if e == 0 {
                collision_free_checks += 1;
            }
            // sorted true counts (descending) to count "others with true >= true(x) - E"
            let mut counts: Vec<usize> = truth.values().copied().collect();
            counts.sort_unstable();
            for (x2, t) in &truth {
                if set.contains(x2) {
                    continue;
                }
                let thr = t.saturating_sub(e);
                // number of elements (incl. x2 itself) with true >= thr
                let ge = counts.len() - counts.partition_point(|c| *c < thr);
                let others = ge - 1; // x2 itself satisfies true(x2) >= thr
                if others < k {
                    return Some((
                        if e == 0 { "C10/missing-top-element/collision-free" } else { "C10/missing-top-element" }.into(),
                        format!("element {} (true count {}) is missing from the result after {} adds although only {} other elements have true count >= {} - E (E = {}); result = {:?}", x2, t, cnt, others, t, e, got.iter().map(|g| (*g, truth[g])).collect::<Vec<_>>()),
                    ));
                }
            }
        }
        None
    });
    rep.evaluations += n as u64;
    rep.count("prefix_checks", checks);
    rep.count("collision_free_prefix_checks", collision_free_checks);
    rep.count("streams", 1);
    rep.max("largest_sketch_overestimate_E", max_e as f64);
    match res {
        Ok(None) => {
            let snap = pdatastructs::verif::snapshot();
            let dd = |e: Event| snap[e as usize] - snap0[e as usize];
            if dd(Event::HeapDisplace) > 0 && dd(Event::HeapReject) > 0 {
                let mut h = CaseHash::new(&label);
                h.push(i as u64);
                rep.nontrivial(h.0);
                if rep.want_sample() && n <= 14 {
                    rep.sample(json!({"config": label, "stream": stream, "displacements": dd(Event::HeapDisplace), "rejections": dd(Event::HeapReject)}));
                }
            }
        }
        Ok(Some((sig, what))) => rep.violation(sig, format!("{}: {}", label, what), json!({"k": k, "w": w, "d": d, "kind": format!("{:?}", kind), "alphabet": alphabet, "n": n, "stream_head": stream.iter().take(80).collect::<Vec<_>>(), "item": i, "profile": ctx.profile})),
        Err(msg) => rep.violation(
            format!("C10/add-panics/{}", panic_class(&msg)),
            format!("{} [{}]: panicked: {}", label, ctx.profile, msg),
            json!({"k": k, "w": w, "d": d, "kind": format!("{:?}", kind), "alphabet": alphabet, "n": n, "stream_head": stream.iter().take(80).collect::<Vec<_>>(), "item": i, "profile": ctx.profile}),
        ),
    }
}

/// every k >= 1 is legal, also "keep everything" values such as usize::MAX. Run in a child process:
/// an allocation failure aborts the process and cannot be caught by catch_unwind.
pub fn huge_k_child() -> i32 {
    for k in [usize::MAX, usize::MAX / 2 + 1, 1usize << 40, u32::MAX as usize + 1] {
        let res = guarded(|| -> Option<String> {
            let mut heap: CMSHeap<u64> = CMSHeap::new(k, CountMinSketch::with_params(16, 4));
            for x in [5u64, 6, 5, 7, 5, 6] {
                heap.add(x);
            }
            let mut got: Vec<u64> = heap.iter().collect();
            got.sort_unstable();
            if got != vec![5, 6, 7] {
                return Some(format!("iter() yields {:?} after adding 5,6,5,7,5,6", got));
            }
            // clear(), clone() and Extend must work for the same k
            heap.clear();
            if !heap.is_empty() || heap.iter().count() != 0 {
                return Some("not empty after clear()".into());
            }
            heap.extend([9u64, 8, 9]);
            let mut c = heap.clone();
            c.add(1);
            let mut got: Vec<u64> = c.iter().collect();
            got.sort_unstable();
            if got != vec![1, 8, 9] {
                return Some(format!("after clear(), extend([9,8,9]), clone(), add(1): iter() yields {:?}", got));
            }
            None
        });
        match res {
            Ok(None) => println!("HUGEK k={} ok", k),
            Ok(Some(w)) => {
                println!("HUGEK k={} wrong: {}", k, w);
                return 1;
            }
            Err(msg) => {
                println!("HUGEK k={} panic: {}", k, msg);
                return 1;
            }
        }
    }
    0
}

fn huge_k(rep: &mut Report) {
    rep.evaluations += 4;
    let exe = match std::env::current_exe() {
        Ok(e) => e,
        Err(_) => return,
    };
    match std::process::Command::new(exe).arg("c10-hugek").output() {
        Ok(o) => {
            let out = String::from_utf8_lossy(&o.stdout).to_string();
            let err: String = String::from_utf8_lossy(&o.stderr).chars().take(400).collect();
            if o.status.success() {
                rep.count("huge_k_values_ok", 4);
            } else {
                let last = out.lines().last().unwrap_or("").to_string();
                rep.violation(
                    "C10/add-panics/huge-k",
                    format!("CMSHeap with a huge k (usize::MAX, usize::MAX/2+1, 2^40, 2^32): the child process running add() ended abnormally (status {:?}); last line: '{}'; stderr: {}", o.status.code(), last, err),
                    json!({"stdout": out, "stderr": err, "stream": [5, 6, 5, 7, 5, 6]}),
                );
            }
        }
        Err(e) => rep.inconclusive.push(format!("cannot spawn the huge-k child: {}", e)),
    }
}

pub fn run(ctx: &Ctx) -> Report {
    let n = match (ctx.tier, ctx.is_dbg()) {
        (Tier::Quick, false) => 24_000,
        (Tier::Quick, true) => 1200,
        (Tier::Thorough, false) => 400_000,
        (Tier::Thorough, true) => 6000,
    };
    let mut rep = par_run(ctx, n, |i, rep| {
        if i == 0 {
            huge_k(rep);
        }
        item(ctx, i, rep)
    });
    rep.require_events(&["HeapKnown", "HeapRoom", "HeapDisplace", "HeapReject"]);
    rep
}
