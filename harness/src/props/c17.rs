//! C17 — HyperLogLog state is a function of the set of distinct hashes.
use crate::infra::hashers::{CtlBuildHasher, HMode};
use crate::infra::rngs::FastRng;
use crate::infra::*;
use pdatastructs::hyperloglog::HyperLogLog;
use serde_json::json;
use std::hash::BuildHasher;

pub const RULE: &str = "per precision b in 4..=18: hash multisets made of boundary patterns (0, MAX, 1<<i, (1<<i)-1, !(1<<i), low-b-bits all set/clear, single high bit per register) plus random 64-bit hashes; registers compared with an independent bit-loop reference after every add for small multisets and at the end otherwise; 20-100 random permutations/duplications per multiset must give identical registers and count; add(x) vs add_hashed(hash_one(x)) for u64 and str keys under Sip/Mix/Identity hashers; reconstruction from registers() must be ==. non-trivial = multiset with >= 2 distinct hashes; distinct = (b, multiset) hashes";
pub const ASSUMPTIONS: &[&str] = &["the reference rank function is an independent 10-line bit loop (no leading_zeros)"];

type Hll = HyperLogLog<u64, CtlBuildHasher>;

/// independent reference: (register index, rank)
pub fn ref_rank(h: u64, b: usize) -> (usize, u8) {
    let mut j = 0usize;
    for bit in 0..b {
        if (h >> bit) & 1 == 1 {
            j |= 1 << bit;
        }
    }
    // remaining 64-b bits, scanned from the most significant one
    let mut rank = (64 - b + 1) as u8;
    for pos in 1..=(64 - b) {
        if (h >> (64 - pos)) & 1 == 1 {
            rank = pos as u8;
            break;
        }
    }
    (j, rank)
}

fn ref_registers(hs: &[u64], b: usize) -> Vec<u8> {
    let mut regs = vec![0u8; 1 << b];
    for h in hs {
        let (j, rk) = ref_rank(*h, b);
        if rk > regs[j] {
            regs[j] = rk;
        }
    }
    regs
}

fn boundary_hashes(b: usize, r: &mut FastRng) -> Vec<u64> {
    let mut v = vec![0u64, u64::MAX, 1, 2, u64::MAX - 1];
    for i in 0..64 {
        v.push(1u64 << i);
        v.push((1u64 << i).wrapping_sub(1));
        v.push(!(1u64 << i));
        v.push((1u64 << i) | r.below(1 << b));
    }
    let low = (1u64 << b) - 1;
    v.push(low);
    v.push(!low);
    v.push(low | (1 << 63));
    v.push(1u64 << b);
    v.push((1u64 << b) - 1);
    v.push((1u64 << (b - 1)) | (1u64 << b));
    for _ in 0..16 {
        // same register, different ranks
        let j = r.below(1 << b);
        let sh = b as u64 + r.below(64 - b as u64);
        v.push(j | (1u64 << sh));
    }
    v
}

fn check_multiset(b: usize, hs: &[u64], shuffles: usize, stepwise: bool, r: &mut FastRng, rep: &mut Report) -> bool {
    let bh = CtlBuildHasher::identity();
    let wit = |what: &str, hs: &[u64]| json!({"b": b, "hashes": hs.iter().take(64).collect::<Vec<_>>(), "n_hashes": hs.len(), "detail": what});
    let res = guarded(|| -> Option<(String, String)> {
        let mut h = Hll::with_hash(b, bh);
        let want = ref_registers(hs, b);
        if stepwise {
            let mut regs = vec![0u8; 1 << b];
            for x in hs {
                h.add_hashed(*x);
                let (j, rk) = ref_rank(*x, b);
                if rk > regs[j] {
                    regs[j] = rk;
                }
                if h.registers() != regs.as_slice() {
                    let jj = (0..regs.len()).find(|i| h.registers()[*i] != regs[*i]).unwrap();
                    return Some((
                        "C17/register-value".into(),
                        format!("after add_hashed({:#x}): register {} = {} but reference = {} (expected register {}, rank {})", x, jj, h.registers()[jj], regs[jj], j, rk),
                    ));
                }
            }
        } else {
            for x in hs {
                h.add_hashed(*x);
            }
        }
        if h.registers() != want.as_slice() {
            let jj = (0..want.len()).find(|i| h.registers()[*i] != want[*i]).unwrap();
            return Some(("C17/register-value".into(), format!("register {} = {} but reference = {}", jj, h.registers()[jj], want[jj])));
        }
        if h.m() != (1 << b) || h.b() != b {
            return Some(("C17/getters".into(), format!("b()/m() = {}/{}", h.b(), h.m())));
        }
        let cnt = h.count();
        // permutations and duplications
        for _ in 0..shuffles {
            let mut p: Vec<u64> = hs.to_vec();
            let dup = r.below(4);
            for _ in 0..dup * (hs.len() as u64 / 4 + 1) {
                p.push(*r.pick(hs));
            }
            r.shuffle(&mut p);
            let mut g = Hll::with_hash(b, bh);
            beat();
            for x in &p {
                g.add_hashed(*x);
            }
            if g.registers() != h.registers() || g != h {
                return Some(("C17/order-or-duplication-dependence".into(), "a permutation / repetition of the same hashes gives different registers".into()));
            }
            if g.count() != cnt {
                return Some(("C17/count-not-function-of-registers".into(), format!("count() {} vs {}", g.count(), cnt)));
            }
        }
        // reconstruction
        let rec = Hll::with_registers_and_hash(b, h.registers().to_vec(), bh);
        if rec != h || rec.count() != cnt || rec.registers() != h.registers() {
            return Some(("C17/reconstruct-not-equal".into(), "with_registers_and_hash(b, registers().to_vec(), hasher) != original".into()));
        }
        if h.is_empty() != hs.is_empty() {
            return Some(("C17/is_empty".into(), format!("is_empty() = {} after {} adds", h.is_empty(), hs.len())));
        }
        None
    });
    match res {
        Ok(None) => true,
        Ok(Some((sig, what))) => {
            rep.violation(sig, format!("hll(b={}): {}", b, what), wit(&what, hs));
            false
        }
        Err(msg) => {
            rep.violation(format!("C17/panic/{}", panic_class(&msg)), format!("hll(b={}): panicked: {}", b, msg), wit(&msg, hs));
            false
        }
    }
}

fn add_vs_add_hashed(b: usize, r: &mut FastRng, rep: &mut Report) {
    for mode in [HMode::Sip, HMode::Mix, HMode::Identity, HMode::Collide(7), HMode::Constant] {
        let bh = CtlBuildHasher::new(mode, r.next());
        let res = guarded(|| -> Option<(String, String)> {
            let mut a: HyperLogLog<u64, CtlBuildHasher> = HyperLogLog::with_hash(b, bh);
            let mut c: HyperLogLog<u64, CtlBuildHasher> = HyperLogLog::with_hash(b, bh);
            let mut sa: HyperLogLog<str, CtlBuildHasher> = HyperLogLog::with_hash(b, bh);
            let mut sc: HyperLogLog<str, CtlBuildHasher> = HyperLogLog::with_hash(b, bh);
            let base = r.next();
            for i in 0..400u64 {
                let k = if i % 3 == 0 { base.wrapping_add(i) } else { r.next() };
                a.add(&k);
                c.add_hashed(bh.hash_one(k));
                if a != c {
                    return Some(("C17/add-vs-add_hashed".into(), format!("add({}) differs from add_hashed(hash_one({})) under {}", k, k, bh.name())));
                }
                let s = format!("element-{}", k);
                sa.add(s.as_str());
                sc.add_hashed(bh.hash_one(s.as_str()));
                if sa.registers() != sc.registers() {
                    return Some(("C17/add-vs-add_hashed".into(), format!("add(\"{}\") differs from add_hashed(hash_one(..)) under {}", s, bh.name())));
                }
            }
            // Extend (by value and by reference) is a loop of add()
            let ks: Vec<u64> = (0..300u64).map(|i| base.wrapping_mul(i + 1)).collect();
            let mut e1: HyperLogLog<u64> = HyperLogLog::new(b);
            let mut e2: HyperLogLog<u64> = HyperLogLog::new(b);
            let mut e3: HyperLogLog<u64> = HyperLogLog::new(b);
            e1.extend(ks.iter().copied().filter(|k| k % 5 != 0));
            e2.extend(ks.iter().filter(|k| *k % 5 != 0));
            for k in ks.iter().filter(|k| *k % 5 != 0) {
                e3.add(k);
            }
            if e1 != e3 || e2 != e3 {
                return Some(("C17/extend-differs-from-adds".into(), "extend() (by value or by reference) gives different registers than the same elements through add()".into()));
            }
            None
        });
        rep.evaluations += 800;
        match res {
            Ok(None) => {}
            Ok(Some((sig, what))) => rep.violation(sig, format!("hll(b={}): {}", b, what), json!({"b": b, "hasher": bh})),
            Err(msg) => rep.violation(format!("C17/panic/{}", panic_class(&msg)), format!("hll(b={}): panicked: {}", b, msg), json!({"b": b, "hasher": bh})),
        }
    }
}

pub fn run(ctx: &Ctx) -> Report {
    let reps = match (ctx.tier, ctx.is_dbg()) {
        (Tier::Quick, false) => 24,
        (Tier::Quick, true) => 3,
        (Tier::Thorough, false) => 400,
        (Tier::Thorough, true) => 24,
    };
    let shuffles = ctx.tier.pick(20, 100);
    par_run(ctx, 15 * reps, |i, rep| {
        let b = 4 + (i % 15);
        let mut r = FastRng::new(ctx.sub_seed(&[i as u64]));
        rep.config(format!("hll(b={})", b));
        // (1) each boundary hash alone and the whole boundary set stepwise
        let bd = boundary_hashes(b, &mut r);
        if i / 15 == 0 {
            for h in &bd {
                rep.evaluations += 1;
                if !check_multiset(b, &[*h], 1, true, &mut r, rep) {
                    return;
                }
            }
        }
        let mut p = bd.clone();
        r.shuffle(&mut p);
        rep.evaluations += p.len() as u64;
        if !check_multiset(b, &p, shuffles, b <= 10, &mut r, rep) {
            return;
        }
        let mut h = CaseHash::new("boundary");
        h.push(b as u64);
        p.iter().for_each(|x| h.push(*x));
        rep.nontrivial(h.0);
        // (2) random multisets of several sizes, some concentrated on few registers
        for size in [2usize, 5, 40, 1000, if b <= 12 { 20_000 } else { 100_000 }] {
            if ctx.is_dbg() && size > 1000 {
                continue;
            }
            let conc = r.chance(0.3);
            let hs: Vec<u64> = (0..size)
                .map(|_| {
                    let x = r.next();
                    // vary the number of leading zeros of the upper part
                    let z = r.below(64 - b as u64);
                    let x = if r.chance(0.5) { x >> z } else { x };
                    if conc {
                        (x & !((1u64 << b) - 1)) | r.below(3)
                    } else {
                        x
                    }
                })
                .collect();
            rep.evaluations += size as u64;
            let sh = if size > 1000 { 3 } else { shuffles };
            if !check_multiset(b, &hs, sh, size <= 40, &mut r, rep) {
                return;
            }
            let mut h = CaseHash::new("random");
            h.push(b as u64);
            hs.iter().take(64).for_each(|x| h.push(*x));
            h.push(size as u64);
            rep.nontrivial(h.0);
            if rep.want_sample() && size <= 5 {
                rep.sample(json!({"b": b, "hashes": hs, "reference_registers_nonzero": ref_registers(&hs, b).iter().enumerate().filter(|(_, v)| **v > 0).map(|(j, v)| (j, *v)).collect::<Vec<_>>()}));
            }
        }
        // (3) add vs add_hashed
        add_vs_add_hashed(b, &mut r, rep);
    })
}
