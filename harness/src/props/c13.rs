//! C13 — QuotientFilter is an exact set over fingerprint classes.
//!
//! Model: set of classes (classes discovered black-box, DESIGN §3.3). After EVERY insert the
//! return value, len(), is_empty() and query(y) for every y of the universe are compared.
use crate::infra::fclass::{discover, Classes};
use crate::infra::flt::*;
use crate::infra::hashers::{CtlBuildHasher, HMode};
use crate::infra::rngs::FastRng;
use crate::infra::*;
use crate::props::common::*;
use serde_json::json;
use std::collections::HashMap;
use std::time::Instant;

pub const RULE: &str = "set-of-classes model checked after every insert with a full-universe sweep. (a) exhaustive DFS over every insertion sequence of distinct classes up to capacity+1 and every sequence with one repeat for (q,r) in {(1,1),(1,2),(2,1),(2,2)} under the Identity hasher; (b) thorough: every quotient sequence of length <= 8 for q=3; (c) capacity boundary of tables with 2^12..2^25 (2^26 thorough) slots, one class per slot; (d) random and crafted (20 % with a clear() in the middle, 25 % continuing on a clone) (hot quotient, wrap-around, full table) histories for q<=8, r<=16 (every 6th item r in {33,40,48,64-q}, universes with single-bit-neighbour fingerprints) with Identity/Mix/Sip/Collide hashers. non-trivial = history with >= 1 shift step or a Full error; distinct = distinct (config, insertion sequence) hashes";
pub const ASSUMPTIONS: &[&str] = &[
    "classes are defined by the filter under test exactly as the property states (singleton filter reports the other element); the collapse gate bounds over-approximation",
    "Identity hasher: hash_one(k) == k (unit-tested)",
];

pub struct Model<'a> {
    pub cls: &'a Classes,
    pub idx: std::rc::Rc<HashMap<u64, usize>>,
    pub present: Vec<bool>,
    pub n: usize,
    pub cap: usize,
}

impl<'a> Model<'a> {
    pub fn new(cls: &'a Classes, cap: usize) -> Self {
        let idx = std::rc::Rc::new(
            cls.universe
                .iter()
                .enumerate()
                .map(|(i, k)| (*k, i))
                .collect(),
        );
        Model {
            cls,
            idx,
            present: vec![false; cls.n_classes],
            n: 0,
            cap,
        }
    }
    pub fn fork(&self) -> Model<'a> {
        Model {
            cls: self.cls,
            idx: std::rc::Rc::clone(&self.idx),
            present: self.present.clone(),
            n: self.n,
            cap: self.cap,
        }
    }
    pub fn class(&self, k: u64) -> usize {
        self.cls.class_of[self.idx[&k]]
    }
    /// expected result of insert(k); applies it
    pub fn insert(&mut self, k: u64) -> Result<bool, ()> {
        let c = self.class(k);
        if self.present[c] {
            Ok(false)
        } else if self.n == self.cap {
            Err(())
        } else {
            self.present[c] = true;
            self.n += 1;
            Ok(true)
        }
    }
}

/// compare all observables of `f` with the model; returns (signature, description)
pub fn observe<F: Flt>(f: &F, m: &Model, queries: &mut u64) -> Result<(), (String, String)> {
    let len = f.len();
    if len != m.n {
        return Err((
            "C13/len".into(),
            format!("len() = {} but {} distinct classes inserted", len, m.n),
        ));
    }
    if f.is_empty() != (m.n == 0) {
        return Err((
            "C13/is_empty".into(),
            format!("is_empty() = {} with {} classes", f.is_empty(), m.n),
        ));
    }
    for (i, y) in m.cls.universe.iter().enumerate() {
        *queries += 1;
        let exp = m.present[m.cls.class_of[i]];
        let got = f.query(*y);
        if got != exp {
            return Err(if exp {
                (
                    "C13/query/false-negative".into(),
                    format!("query({}) = false but its class was inserted", y),
                )
            } else {
                (
                    "C13/query/false-positive-from-bookkeeping".into(),
                    format!("query({}) = true but no element of its class was inserted", y),
                )
            });
        }
    }
    Ok(())
}

fn res_name(r: &Result<bool, ()>) -> &'static str {
    match r {
        Ok(true) => "Ok(true)",
        Ok(false) => "Ok(false)",
        Err(()) => "Err(Full)",
    }
}

/// one insert + all observations. Err = violation (sig, what)
pub fn step<F: Flt>(
    f: &mut F,
    m: &mut Model,
    k: u64,
    queries: &mut u64,
) -> Result<Result<bool, ()>, (String, String)> {
    let exp = m.insert(k);
    let got = match guarded(|| f.insert(k)) {
        Ok(g) => g,
        Err(msg) => {
            return Err((
                format!("C13/panic/insert/{}", panic_class(&msg)),
                format!("insert({}) panicked: {}", k, msg),
            ))
        }
    };
    if got != exp {
        return Err((
            format!("C13/insert-result/expected-{}-got-{}", res_name(&exp), res_name(&got)),
            format!(
                "insert({}) returned {} but the set-of-classes model says {} (len before = {}, capacity = {})",
                k,
                res_name(&got),
                res_name(&exp),
                if exp == Ok(true) { m.n - 1 } else { m.n },
                m.cap
            ),
        ));
    }
    match guarded(|| observe(f, m, queries)) {
        Ok(r) => r.map(|_| got),
        Err(msg) => Err((
            format!("C13/panic/query/{}", panic_class(&msg)),
            format!("query/len panicked after insert({}): {}", k, msg),
        )),
    }
}

fn fp_bound(cfg: &QfCfg) -> f64 {
    let bits = (cfg.q + cfg.r).min(63);
    1.0 / (1u64 << bits) as f64
}

pub fn classes_for(
    cfg: &QfCfg,
    universe: &[u64],
    rep: &mut Report,
    crafted: bool,
) -> Option<Classes> {
    let c = cfg.clone();
    // crafted Identity universes contain intended aliases (trash bits) and dense fingerprints:
    // the gate is only meaningful for hash-distributed universes
    let bound = if crafted { 1.0 } else { fp_bound(cfg) };
    match guarded(|| discover(&|| c.make(), universe, bound)) {
        Ok(Ok(cls)) => Some(cls),
        Ok(Err(e)) => {
            rep.violation(
                format!("C13/{}", e.signature()),
                format!("{}: class discovery failed: {:?}", cfg.label(), e),
                json!({"config": cfg, "detail": e.witness()}),
            );
            None
        }
        Err(msg) => {
            rep.violation(
                format!("C13/panic/discover/{}", panic_class(&msg)),
                format!("{}: panic during singleton-filter probing: {}", cfg.label(), msg),
                json!({"config": cfg}),
            );
            None
        }
    }
}

// ---------------------------------------------------------------------------------------------
// (a) exhaustive DFS for tiny tables

struct Dfs<'a> {
    cfg: &'a QfCfg,
    cls: &'a Classes,
    nodes: u64,
    queries: u64,
    leaves: u64,
    failed: bool,
}

impl<'a> Dfs<'a> {
    #[allow(clippy::too_many_arguments)]
    fn go(
        &mut self,
        f: &Qf,
        m0: &Model,
        seq: &mut Vec<u64>,
        repeat_used: bool,
        rep: &mut Report,
    ) {
        if self.failed {
            return;
        }
        // children: every class representative
        let mut extended = false;
        for c in 0..self.cls.n_classes {
            let is_member = m0.present[c];
            if is_member && repeat_used {
                continue;
            }
            let k = self.cls.rep[c];
            let mut f2 = f.clone();
            let mut m = m0.fork();
            seq.push(k);
            self.nodes += 1;
            match step(&mut f2, &mut m, k, &mut self.queries) {
                Err((sig, what)) => {
                    rep.violation(
                        sig,
                        format!("{} (exhaustive): after inserts {:?}: {}", self.cfg.label(), seq, what),
                        json!({"config": self.cfg, "inserts": seq, "state": f2.dump()}),
                    );
                    self.failed = true;
                    seq.pop();
                    return;
                }
                Ok(Err(())) => {
                    // Full is a leaf: the filter must be unchanged (observed by step) and repeats still known
                    self.leaves += 1;
                    let mut h = CaseHash::new(&self.cfg.label());
                    seq.iter().for_each(|k| h.push(*k));
                    rep.nontrivial(h.0);
                }
                Ok(Ok(_)) => {
                    extended = true;
                    let ru = repeat_used || is_member;
                    self.go(&f2, &m, seq, ru, rep);
                }
            }
            seq.pop();
            if self.failed {
                return;
            }
        }
        if !extended {
            self.leaves += 1;
        }
    }
}

fn exhaustive(cfg: &QfCfg, first_class: usize, rep: &mut Report) {
    let total = 1u64 << (cfg.q + cfg.r);
    let universe: Vec<u64> = (0..total).map(|v| qf_fp_key(cfg, v)).collect();
    let Some(cls) = classes_for(cfg, &universe, rep, false) else {
        return;
    };
    if cls.n_classes as u64 != total {
        // The crafted keys do not enumerate the classes of this implementation (it cuts its
        // fingerprint from other hash bits than the low or the high end). That is no violation of
        // C13 - classes are whatever the filter cannot tell apart - it only means this exhaustive
        // scenario cannot be set up. (It used to be reported as a violation; a neutral change that
        // took the fingerprint from the top hash bits showed that this demanded more than C13.)
        rep.count("exhaustive_skipped(crafted keys do not enumerate the classes)", 1);
        return;
    }
    let cap = cfg.slots();
    let f = cfg.make();
    let mut m = Model::new(&cls, cap);
    let mut q = 0u64;
    let k = cls.rep[first_class];
    let mut f1 = f.clone();
    let mut seq = vec![k];
    let mut dfs = Dfs {
        cfg,
        cls: &cls,
        nodes: 1,
        queries: 0,
        leaves: 0,
        failed: false,
    };
    match step(&mut f1, &mut m, k, &mut q) {
        Err((sig, what)) => {
            rep.violation(
                sig,
                format!("{} (exhaustive): first insert {}: {}", cfg.label(), k, what),
                json!({"config": cfg, "inserts": seq}),
            );
            return;
        }
        Ok(_) => {}
    }
    dfs.go(&f1, &m, &mut seq, false, rep);
    rep.evaluations += dfs.nodes;
    rep.count("exhaustive_nodes", dfs.nodes);
    rep.count("exhaustive_sequences(leaves)", dfs.leaves);
    rep.count("sweep_queries", dfs.queries + q);
}

// ---------------------------------------------------------------------------------------------
// (b) all quotient sequences for q = 3 (thorough)

fn quotient_sequences(cfg: &QfCfg, prefix: &[u64], len: usize, rep: &mut Report, r: &mut FastRng) {
    let total = 1u64 << (cfg.q + cfg.r);
    let universe: Vec<u64> = (0..total).map(|v| qf_fp_key(cfg, v)).collect();
    let Some(cls) = classes_for(cfg, &universe, rep, false) else {
        return;
    };
    let nq = 1u64 << cfg.q;
    let nr = 1u64 << cfg.r;
    let cap = cfg.slots();
    let rest = len - prefix.len();
    let n_seq = nq.pow(rest as u32);
    let mut queries = 0u64;
    for code in 0..n_seq {
        let mut quots: Vec<u64> = prefix.to_vec();
        let mut c = code;
        for _ in 0..rest {
            quots.push(c % nq);
            c /= nq;
        }
        let mut f = cfg.make();
        let mut m = Model::new(&cls, cap);
        let mut seq = vec![];
        for qv in &quots {
            let k = qf_fp_key(cfg, (qv << cfg.r) | r.below(nr));
            seq.push(k);
            rep.evaluations += 1;
            if let Err((sig, what)) = step(&mut f, &mut m, k, &mut queries) {
                rep.violation(
                    sig,
                    format!("{} (quotient sequences): after inserts {:?}: {}", cfg.label(), seq, what),
                    json!({"config": cfg, "inserts": seq, "state": f.dump()}),
                );
                rep.count("sweep_queries", queries);
                return;
            }
        }
        let mut h = CaseHash::new(&cfg.label());
        seq.iter().for_each(|k| h.push(*k));
        rep.nontrivial(h.0);
    }
    rep.count("quotient_sequences", n_seq);
    rep.count("sweep_queries", queries);
}

// ---------------------------------------------------------------------------------------------
// (c) random / crafted

pub fn random_item(ctx: &Ctx, i: usize, rep: &mut Report) {
    let mut r = FastRng::new(ctx.sub_seed(&[3, i as u64]));
    let big = r.chance(0.12);
    let mut cfg = pick_qf(&mut r, if big { 8 } else { 5 });
    // mostly narrow remainders; every 6th item 33..61 bits (incl. q + r = 64)
    cfg.r = if i % 6 == 5 { *r.pick(&[33usize, 40, 48, 64 - cfg.q]) } else { cfg.r.min(16) };
    cfg.bh = match i % 4 {
        0 | 1 => CtlBuildHasher::identity(),
        2 => CtlBuildHasher::new(HMode::Mix, r.next()),
        _ => {
            if r.chance(0.5) {
                CtlBuildHasher::new(HMode::Sip, r.next())
            } else {
                CtlBuildHasher::new(HMode::Collide((cfg.q + cfg.r).min(8) as u8), r.next())
            }
        }
    };
    let label = cfg.label();
    rep.config(&label);
    let cap = cfg.slots();
    let crafted = cfg.bh.mode == HMode::Identity;
    let total_fp: u128 = 1u128 << (cfg.q + cfg.r);
    let universe: Vec<u64> = if crafted && total_fp <= 512 && r.chance(0.5) {
        // whole fingerprint universe
        (0..total_fp as u64).collect()
    } else {
        let usz = (cap * (2 + r.below(3) as usize)).clamp(8, 768);
        qf_universe(&cfg, &mut r, usz)
    };
    if universe.len() < 2 {
        return;
    }
    let gate_off = !matches!(cfg.bh.mode, HMode::Mix | HMode::Sip);
    let Some(cls) = classes_for(&cfg, &universe, rep, gate_off) else {
        return;
    };
    rep.count("class_discovery_queries", (universe.len() * universe.len()) as u64);
    let hists = if cap > 64 { 3 } else { 10 };
    let mut queries = 0u64;
    for _ in 0..hists {
        let snap0 = pdatastructs::verif::snapshot();
        let mut f = cfg.make();
        let mut m = Model::new(&cls, cap);
        // drive beyond capacity: up to cap + few distinct classes, with repeats mixed in
        let n_ops = (cap + 2 + r.below(cap as u64 + 4) as usize).min(cls.n_classes * 2 + 4);
        let mut seq = vec![];
        let fill_order = r.below(3);
        let mut fulls = 0;
        let clear_at = if r.chance(0.2) { Some(r.below(n_ops as u64) as usize) } else { None };
        let clone_at = if r.chance(0.25) { Some(r.below(n_ops as u64) as usize) } else { None };
        for s in 0..n_ops {
            if clear_at == Some(s) {
                // clear(): the set of classes is empty again; everything after must behave like a fresh filter
                Flt::clear(&mut f);
                m = Model::new(&cls, cap);
                seq.push(u64::MAX); // marker in the witness
                if let Err((sig, what)) = observe(&f, &m, &mut queries) {
                    rep.violation(format!("{}/after-clear", sig), format!("{}: after clear(): {}", label, what), json!({"config": cfg, "inserts_then_clear": seq}));
                    return;
                }
            }
            if clone_at == Some(s) {
                f = f.clone();
            }
            let k = match fill_order {
                0 => *r.pick(&universe),
                1 => universe[(s * 7 + 3) % universe.len()],
                _ => {
                    // prefer new classes (drives to Full quickly)
                    let mut k = *r.pick(&universe);
                    for _ in 0..4 {
                        if !m.present[m.class(k)] {
                            break;
                        }
                        k = *r.pick(&universe);
                    }
                    k
                }
            };
            seq.push(k);
            rep.evaluations += 1;
            match step(&mut f, &mut m, k, &mut queries) {
                Err((sig, what)) => {
                    rep.violation(
                        sig,
                        format!("{}: after inserts {:?}: {}", label, seq, what),
                        json!({"config": cfg, "inserts": seq, "state": f.dump()}),
                    );
                    rep.count("sweep_queries", queries);
                    return;
                }
                Ok(Err(())) => {
                    fulls += 1;
                    if fulls > 3 {
                        break;
                    }
                }
                Ok(_) => {}
            }
        }
        let snap = pdatastructs::verif::snapshot();
        let d = |e: Event| snap[e as usize] - snap0[e as usize];
        rep.count("histories", 1);
        if d(Event::QfShiftStep) > 0 || fulls > 0 {
            let mut h = CaseHash::new(&label);
            seq.iter().for_each(|k| h.push(*k));
            rep.nontrivial(h.0);
            if rep.want_sample() && seq.len() <= 10 {
                rep.sample(json!({"config": label, "inserts": seq, "final_len": m.n, "full_errors": fulls}));
            }
        }
    }
    rep.count("sweep_queries", queries);
}

/// Capacity boundary of a big table. The keys are crafted so that the pinned tree puts one class
/// into every slot without shifting (fast), but nothing below relies on that: whether a key is a
/// new class is read from the filter itself (`query` before the insert - C13's own definition of
/// "an indistinguishable element was inserted"), so an implementation that cuts its fingerprints
/// differently is judged by the same rule. The table must accept new classes until len() = 2^q
/// and then answer Err(Full) to new and Ok(false) to known ones.
fn capacity_boundary(q: usize, rep: &mut Report) {
    let cfg = QfCfg { q, r: 1, bh: CtlBuildHasher::identity() };
    let label = cfg.label();
    rep.config(&label);
    let n = 1u64 << q;
    let t0 = Instant::now();
    let mut reached_full = false;
    let res = guarded(|| -> Option<(String, String)> {
        let mut f = cfg.make();
        let mut len = 0u64;
        let mut after_full = 0u32;
        // remainder 0 for every quotient first, then remainder 1, then the remainder-0 keys again
        for step in 0..3 * n {
            if step & 0xf_ffff == 0 && t0.elapsed().as_secs() > 60 {
                return None; // a slower layout: give up on this table, nothing was wrong so far
            }
            let v = if step < n { step << 1 } else if step < 2 * n { ((step - n) << 1) | 1 } else { (step - 2 * n) << 1 };
            let k = qf_fp_key(&cfg, v);
            let known = Flt::query(&f, k);
            let res = Flt::insert(&mut f, k);
            let want = if known { Ok(false) } else if len == n { Err(()) } else { Ok(true) };
            if res != want {
                let name = |x: &Result<bool, ()>| match x { Ok(true) => "Ok(true)", Ok(false) => "Ok(false)", Err(()) => "Err(Full)" };
                return Some((
                    format!("C13/insert-result/expected-{}-got-{}", name(&want), name(&res)),
                    format!("insert #{} (key {:#x}): query() said {} before the insert and len() was {} of {}, insert returned {}", step + 1, k, if known { "present" } else { "absent" }, len, n, name(&res)),
                ));
            }
            if res == Ok(true) {
                len += 1;
                if !Flt::query(&f, k) {
                    return Some(("C13/query/false-negative".into(), format!("key {:#x} is absent right after insert returned Ok(true)", k)));
                }
            }
            if (len == n - 1 || len == n || step & 0xffff == 0) && Flt::len(&f) as u64 != len {
                return Some(("C13/len".into(), format!("len() = {} after {} distinct classes", Flt::len(&f), len)));
            }
            if len == n {
                reached_full = true;
                after_full += 1;
                if after_full > 64 && step >= 2 * n {
                    break;
                }
                if after_full > 4096 {
                    break;
                }
            }
        }
        None
    });
    if !reached_full && res.as_ref().map(|x| x.is_none()).unwrap_or(false) {
        rep.count("capacity_boundary_not_reached(crafted keys alias or time budget)", 1);
    }
    rep.evaluations += n;
    rep.count("capacity_boundary_tables", 1);
    match res {
        Ok(None) => {
            let mut h = CaseHash::new(&label);
            h.push(q as u64);
            rep.nontrivial(h.0);
        }
        Ok(Some((sig, what))) => rep.violation(sig, format!("{} (one class per slot): {}", label, what), json!({"config": cfg})),
        Err(msg) => rep.violation(format!("C13/panic/insert/{}", panic_class(&msg)), format!("{}: panicked: {}", label, msg), json!({"config": cfg})),
    }
}

pub fn run(ctx: &Ctx) -> Report {
    // work items: exhaustive (q,r) x first class; [thorough] quotient-sequence prefixes; random
    let mut items: Vec<(u8, usize, usize, usize)> = vec![]; // (kind, a, b, c)
    for (q, r) in [(1usize, 1usize), (1, 2), (2, 1), (2, 2)] {
        for c in 0..(1usize << (q + r)) {
            items.push((0, q, r, c));
        }
    }
    if ctx.tier == Tier::Thorough {
        for r in [1usize, 2] {
            for a in 0..8usize {
                for b in 0..8usize {
                    items.push((1, r, a, b));
                }
            }
        }
    } else {
        // quick: quotient sequences of length 6 for q=3
        for r in [1usize, 2] {
            for a in 0..8usize {
                items.push((2, r, a, 0));
            }
        }
    }
    // capacity boundary of big tables (release build only: 2^25 inserts)
    if !ctx.is_dbg() {
        for q in [12usize, 20, 24, 25] {
            items.push((3, q, 0, 0));
        }
        if ctx.tier == Tier::Thorough {
            items.push((3, 26, 0, 0));
        }
    }
    let n_random = ctx.tier.pick(3000, 60_000);
    let n_fixed = items.len();
    let mut rep = par_run(ctx, n_fixed + n_random, |i, rep| {
        if i < n_fixed {
            let (kind, a, b, c) = items[i];
            match kind {
                0 => {
                    let cfg = QfCfg {
                        q: a,
                        r: b,
                        bh: CtlBuildHasher::identity(),
                    };
                    rep.config(cfg.label());
                    exhaustive(&cfg, c, rep);
                }
                3 => capacity_boundary(a, rep),
                1 => {
                    let cfg = QfCfg {
                        q: 3,
                        r: a,
                        bh: CtlBuildHasher::identity(),
                    };
                    rep.config(cfg.label());
                    let mut r = FastRng::new(ctx.sub_seed(&[2, i as u64]));
                    quotient_sequences(&cfg, &[b as u64, c as u64], 8, rep, &mut r);
                }
                _ => {
                    let cfg = QfCfg {
                        q: 3,
                        r: a,
                        bh: CtlBuildHasher::identity(),
                    };
                    rep.config(cfg.label());
                    let mut r = FastRng::new(ctx.sub_seed(&[2, i as u64]));
                    quotient_sequences(&cfg, &[b as u64], 6, rep, &mut r);
                }
            }
        } else {
            random_item(ctx, i - n_fixed, rep);
        }
    });
    rep.extra.insert(
        "exhaustive_subspaces".into(),
        json!(["all insertion sequences of distinct classes up to capacity+1 and all sequences with one repeat for (q,r) in (1,1),(1,2),(2,1),(2,2), Identity hasher",
               if ctx.tier == Tier::Thorough {"all 8^8 quotient sequences for q=3, r in {1,2} (remainders random)"} else {"all 8^6 quotient sequences for q=3, r in {1,2} (remainders random)"}]),
    );
    rep.require_events(&[
        "QfNewRun",
        "QfRunHead",
        "QfRunMiddle",
        "QfRunAppend",
        "QfShiftStep",
        "QfWrapIncr",
        "QfWrapDecr",
        "QfFull",
        "QfKnown",
    ]);
    rep
}
