//! C14 — CuckooFilter is an exact multiset over fingerprint classes.
use crate::infra::fclass::{discover, Classes};
use crate::infra::flt::*;
use crate::infra::hashers::{CtlBuildHasher, HMode};
use crate::infra::rngs::FastRng;
use crate::infra::*;
use crate::props::common::*;
use serde_json::{json, Value};
use std::collections::HashMap;
use std::rc::Rc;

pub const RULE: &str = "multiset-of-classes model; after every insert/delete: return value, len(), is_empty() and query(y) for the whole universe; every 16 operations and at the end a deletable-count probe on a clone (delete a representative of each class until false; successes must equal the model count). (a) exhaustive DFS over all insert/delete histories of bounded length for (bucketsize 2, n_buckets 2, l 2) under a fixed eviction-RNG seed per hasher; (b) random histories for bucketsize 2..8, n_buckets 2..32, l in {2,3,5,8,13,31,32,33,40,48,64}, occasionally buckets of 257..511 slots, with hostile RNGs and kick budgets; 20 % of the histories contain a clear(), 25 % continue on a clone. non-trivial = history with >= 1 eviction, failed insert, delete from second bucket or delete of an absent class; distinct = distinct (config, op sequence) hashes";
pub const ASSUMPTIONS: &[&str] = &[
    "classes are defined by the filter under test (singleton filter reports the other element), with the collapse gate bounding over-approximation",
    "insert failures (Full) are legitimate whenever the filter holds >= bucketsize elements; their atomicity is C12's business",
];

#[derive(Clone, Debug)]
pub enum Op {
    Insert(u64),
    Delete(u64),
}

pub fn op_json(o: &Op) -> Value {
    match o {
        Op::Insert(k) => json!({"insert": k}),
        Op::Delete(k) => json!({"delete": k}),
    }
}

#[derive(Clone)]
pub struct Model<'a> {
    pub cls: &'a Classes,
    pub idx: Rc<HashMap<u64, usize>>,
    pub count: Vec<u32>,
    pub n: usize,
    pub bucketsize: usize,
}

impl<'a> Model<'a> {
    pub fn new(cls: &'a Classes, bucketsize: usize) -> Self {
        let idx = Rc::new(
            cls.universe
                .iter()
                .enumerate()
                .map(|(i, k)| (*k, i))
                .collect(),
        );
        Model {
            cls,
            idx,
            count: vec![0; cls.n_classes],
            n: 0,
            bucketsize,
        }
    }
    pub fn class(&self, k: u64) -> usize {
        self.cls.class_of[self.idx[&k]]
    }
}

pub fn observe<F: Flt>(f: &F, m: &Model, queries: &mut u64) -> Result<(), (String, String)> {
    let len = f.len();
    if len != m.n {
        return Err((
            "C14/len".into(),
            format!("len() = {} but successful inserts - successful deletes = {}", len, m.n),
        ));
    }
    if f.is_empty() != (m.n == 0) {
        return Err((
            "C14/is_empty".into(),
            format!("is_empty() = {} with {} stored copies", f.is_empty(), m.n),
        ));
    }
    for (i, y) in m.cls.universe.iter().enumerate() {
        *queries += 1;
        let exp = m.count[m.cls.class_of[i]] >= 1;
        let got = f.query(*y);
        if got != exp {
            return Err(if exp {
                (
                    "C14/query/false-negative".into(),
                    format!("query({}) = false but {} copies of its class are stored", y, m.count[m.cls.class_of[i]]),
                )
            } else {
                (
                    "C14/query/true-without-stored-copy".into(),
                    format!("query({}) = true but no copy of its class is stored", y),
                )
            });
        }
    }
    Ok(())
}

/// deletable-count probe on a clone
pub fn probe_deletable(f: &Cuckoo, m: &Model) -> Result<(), (String, String)> {
    let mut c = f.clone();
    for (ci, r) in m.cls.rep.iter().enumerate() {
        let mut got = 0u32;
        while got <= m.count[ci] + 1 && Flt::delete(&mut c, *r) == Some(true) {
            got += 1;
        }
        if got != m.count[ci] {
            return Err((
                format!(
                    "C14/deletable-count/{}",
                    if got > m.count[ci] { "more-than-stored" } else { "fewer-than-stored" }
                ),
                format!(
                    "class of key {} holds {} copies by the model but {} deletes succeeded on a clone",
                    r, m.count[ci], got
                ),
            ));
        }
    }
    if Flt::len(&c) != 0 {
        return Err((
            "C14/deletable-count/len-after-deleting-everything".into(),
            format!("after deleting every stored copy len() = {}", Flt::len(&c)),
        ));
    }
    Ok(())
}

/// apply one op, compare with the model. Ok(outcome string)
pub fn step(
    f: &mut Cuckoo,
    m: &mut Model,
    op: &Op,
    queries: &mut u64,
) -> Result<&'static str, (String, String)> {
    let outcome;
    match op {
        Op::Insert(k) => {
            let before = m.n;
            let got = guarded(|| Flt::insert(f, *k)).map_err(|msg| {
                (
                    format!("C14/panic/insert/{}", panic_class(&msg)),
                    format!("insert({}) panicked: {}", k, msg),
                )
            })?;
            match got {
                Ok(true) => {
                    let c = m.class(*k);
                    m.count[c] += 1;
                    m.n += 1;
                    outcome = "inserted";
                }
                Ok(false) => {
                    return Err((
                        "C14/insert-result/ok-false".into(),
                        format!("insert({}) succeeded but returned Ok(false); documented: always Ok(true) on success", k),
                    ));
                }
                Err(()) => {
                    if before < m.bucketsize {
                        return Err((
                            "C14/insert-failed-below-bucketsize".into(),
                            format!("insert({}) failed although the filter holds only {} < bucketsize = {} elements", k, before, m.bucketsize),
                        ));
                    }
                    outcome = "full";
                }
            }
        }
        Op::Delete(k) => {
            let c = m.class(*k);
            let exp = m.count[c] >= 1;
            let got = guarded(|| Flt::delete(f, *k)).map_err(|msg| {
                (
                    format!("C14/panic/delete/{}", panic_class(&msg)),
                    format!("delete({}) panicked: {}", k, msg),
                )
            })?;
            if got != Some(exp) {
                return Err((
                    format!("C14/delete-result/expected-{}", exp),
                    format!("delete({}) returned {:?} but the model holds {} copies of its class", k, got, m.count[c]),
                ));
            }
            if exp {
                m.count[c] -= 1;
                m.n -= 1;
                outcome = "deleted";
            } else {
                outcome = "delete-absent";
            }
        }
    }
    match guarded(|| observe(f, m, queries)) {
        Ok(r) => r.map(|_| outcome),
        Err(msg) => Err((
            format!("C14/panic/query/{}", panic_class(&msg)),
            format!("query/len panicked: {}", msg),
        )),
    }
}

pub fn fp_bound(cfg: &CuckooCfg) -> f64 {
    let fps = if cfg.l >= 63 {
        u64::MAX as f64
    } else {
        ((1u64 << cfg.l) - 1) as f64
    };
    (2.0 / (cfg.n_buckets as f64 * fps)).min(1.0)
}

pub fn classes_for(cfg: &CuckooCfg, universe: &[u64], rep: &mut Report, prop: &str) -> Option<Classes> {
    let c = cfg.clone();
    let gate_off = !matches!(cfg.bh.mode, HMode::Mix | HMode::Sip);
    let bound = if gate_off { 1.0 } else { fp_bound(cfg) };
    match guarded(|| discover(&|| c.make(), universe, bound)) {
        Ok(Ok(cls)) => Some(cls),
        Ok(Err(e)) => {
            // diagnostics: where does every key of the universe land in an empty filter?
            let placement: Vec<Value> = universe
                .iter()
                .map(|k| {
                    let mut f = cfg.make();
                    let _ = Flt::insert(&mut f, *k);
                    let slots = f.verif_slots();
                    let pos = slots.iter().position(|s| *s != 0);
                    json!({"key": k, "slot": pos, "fingerprint": pos.map(|p| slots[p])})
                })
                .collect();
            rep.violation(
                format!("{}/{}", prop, e.signature()),
                format!("{}: class discovery failed: {:?}", cfg.label(), e),
                json!({"config": cfg, "detail": e.witness(), "universe_size": universe.len(), "placement_in_empty_filter": placement}),
            );
            None
        }
        Err(msg) => {
            rep.violation(
                format!("{}/panic/discover/{}", prop, panic_class(&msg)),
                format!("{}: panic during singleton-filter probing: {}", cfg.label(), msg),
                json!({"config": cfg}),
            );
            None
        }
    }
}

// ---------------------------------------------------------------------------------------------
// (a) exhaustive DFS on the tiniest table

struct Dfs<'a> {
    cfg: &'a CuckooCfg,
    cls: &'a Classes,
    depth: usize,
    nodes: u64,
    queries: u64,
    probes: u64,
    failed: bool,
}

impl<'a> Dfs<'a> {
    fn go(&mut self, f: &Cuckoo, m: &Model, hist: &mut Vec<Op>, interesting: bool, rep: &mut Report) {
        if self.failed {
            return;
        }
        if hist.len() == self.depth {
            self.probes += 1;
            if let Err((sig, what)) = probe_deletable(f, m) {
                self.fail(sig, what, hist, f, rep);
            }
            if interesting {
                let mut h = CaseHash::new(&self.cfg.label());
                for o in hist.iter() {
                    match o {
                        Op::Insert(k) => h.push(*k),
                        Op::Delete(k) => h.push(!*k),
                    }
                }
                rep.nontrivial(h.0);
                if rep.want_sample() && self.nodes % 1000 == 7 {
                    rep.sample(json!({"config": self.cfg.label(), "exhaustive": true, "history": hist.iter().map(op_json).collect::<Vec<_>>()}));
                }
            }
            return;
        }
        for c in 0..self.cls.n_classes {
            for del in [false, true] {
                let k = self.cls.rep[c];
                let op = if del { Op::Delete(k) } else { Op::Insert(k) };
                let mut f2 = f.clone();
                let mut m2 = m.clone();
                hist.push(op.clone());
                self.nodes += 1;
                match step(&mut f2, &mut m2, &op, &mut self.queries) {
                    Err((sig, what)) => {
                        self.fail(sig, what, hist, &f2, rep);
                        hist.pop();
                        return;
                    }
                    Ok(out) => {
                        let i2 = interesting || out == "full" || out == "delete-absent";
                        self.go(&f2, &m2, hist, i2, rep);
                    }
                }
                hist.pop();
                if self.failed {
                    return;
                }
            }
        }
    }
    fn fail(&mut self, sig: String, what: String, hist: &[Op], f: &Cuckoo, rep: &mut Report) {
        rep.violation(
            sig,
            format!("{} (exhaustive): after {} ops: {}", self.cfg.label(), hist.len(), what),
            json!({"config": self.cfg, "history": hist.iter().map(op_json).collect::<Vec<_>>(), "state": f.dump()}),
        );
        self.failed = true;
    }
}

fn exhaustive(ctx: &Ctx, variant: usize, rep: &mut Report) {
    let mut r = FastRng::new(ctx.sub_seed(&[1, variant as u64]));
    let bh = match variant % 3 {
        0 => CtlBuildHasher::layout(),
        _ => CtlBuildHasher::new(HMode::Mix, r.next()),
    };
    let cfg = CuckooCfg {
        bucketsize: 2,
        n_buckets: 2,
        l: 2,
        bh,
        rng: RngSpec::Fast(r.next()),
    };
    rep.config(cfg.label());
    // universe: enough keys to hit every class
    let universe: Vec<u64> = if bh.mode == HMode::Layout {
        let mut u = vec![];
        for fp in 0..3u64 {
            for b in 0..2u64 {
                u.push((fp << 32) | b);
            }
        }
        u
    } else {
        (0..64).map(|_| r.next()).collect()
    };
    let Some(cls) = classes_for(&cfg, &universe, rep, "C14") else {
        return;
    };
    let depth = match (ctx.tier, cls.n_classes) {
        (Tier::Quick, n) if n <= 4 => 6,
        (Tier::Quick, _) => 5,
        (Tier::Thorough, n) if n <= 4 => 7,
        (Tier::Thorough, _) => 6,
    };
    let f = cfg.make();
    let m = Model::new(&cls, cfg.bucketsize);
    let mut dfs = Dfs {
        cfg: &cfg,
        cls: &cls,
        depth,
        nodes: 0,
        queries: 0,
        probes: 0,
        failed: false,
    };
    let mut hist = vec![];
    dfs.go(&f, &m, &mut hist, false, rep);
    rep.evaluations += dfs.nodes;
    rep.count("exhaustive_nodes", dfs.nodes);
    rep.count("exhaustive_histories(leaves)", dfs.probes);
    rep.count("sweep_queries", dfs.queries);
    rep.count("deletable_probes", dfs.probes);
    rep.extra.insert(
        "exhaustive_subspaces".into(),
        json!([format!("{}: all insert/delete histories of length {} over its {} classes", cfg.label(), depth, cls.n_classes)]),
    );
}

// ---------------------------------------------------------------------------------------------
// (b) random

pub fn pick_cfg(r: &mut FastRng, i: usize) -> CuckooCfg {
    let big = r.below(10) == 0;
    let mut cfg = pick_cuckoo(r, if big { 256 } else { 64 });
    cfg.n_buckets = cfg.n_buckets.min(32);
    cfg.l = *r.pick(&[2usize, 2, 3, 5, 8, 13, 31, 32, 33, 40, 48, 64]);
    cfg.bh = match i % 4 {
        // every 16th item: a key is its own hash (the universe then contains extreme words such as
        // u64::MAX and 0), or every key hashes to one extreme word
        _ if i % 16 == 5 => CtlBuildHasher::identity(),
        _ if i % 16 == 13 => CtlBuildHasher::new(HMode::Constant, *r.pick(&EXTREME_WORDS)),
        0 => CtlBuildHasher::layout(),
        1 | 2 => CtlBuildHasher::new(HMode::Mix, r.next()),
        _ => {
            if r.chance(0.5) {
                CtlBuildHasher::new(HMode::Sip, r.next())
            } else {
                CtlBuildHasher::new(HMode::Collide(2 + r.below(8) as u8), r.next())
            }
        }
    };
    cfg
}

fn random_item(ctx: &Ctx, i: usize, rep: &mut Report) {
    let mut r = FastRng::new(ctx.sub_seed(&[2, i as u64]));
    let cfg = if i % 128 == 63 { pick_cuckoo_wide_bucket(&mut r) } else { pick_cfg(&mut r, i) };
    let label = cfg.label();
    rep.config(&label);
    let cap = cfg.slots();
    let usz = if cap > 400 { 240 } else { (cap * (1 + r.below(3) as usize)).clamp(8, 400) };
    let universe = cuckoo_universe(&cfg, &mut r, usz);
    if universe.len() < 2 {
        return;
    }
    let Some(cls) = classes_for(&cfg, &universe, rep, "C14") else {
        return;
    };
    rep.count("class_discovery_queries", (universe.len() * universe.len()) as u64);
    let hists = if cap > 400 { 1 } else if cap > 64 { 3 } else { 10 };
    let mut queries = 0u64;
    for _ in 0..hists {
        let kb = match r.below(8) {
            0 => Some(0),
            1 => Some(1),
            2 => Some(3),
            3 => Some(20),
            _ => None,
        };
        pdatastructs::verif::set_kick_budget(kb);
        let snap0 = pdatastructs::verif::snapshot();
        let mut c = cfg.clone();
        c.rng = pick_rng(&mut r);
        let mut f = c.make();
        let mut m = Model::new(&cls, cfg.bucketsize);
        let n_ops = if cap > 400 { cap + 30 + r.below(60) as usize } else { 4 + r.below((cap as u64 * 4).clamp(8, 500)) as usize };
        let style = r.below(4);
        let hot = *r.pick(&universe);
        let mut hist: Vec<Op> = vec![];
        let mut nontrivial = false;
        let p_del = [0.1, 0.3, 0.5, 0.2][style as usize];
        let clear_at = if r.chance(0.2) { Some(r.below(n_ops as u64) as usize) } else { None };
        let clone_at = if r.chance(0.25) { Some(r.below(n_ops as u64) as usize) } else { None };
        for s in 0..n_ops {
            if clear_at == Some(s) {
                Flt::clear(&mut f);
                m = Model::new(&cls, cfg.bucketsize);
                if let Err((sig, what)) = observe(&f, &m, &mut queries) {
                    rep.violation(format!("{}/after-clear", sig), format!("{}: after clear(): {}", label, what), json!({"config": c, "history_then_clear": hist.iter().map(op_json).collect::<Vec<_>>()}));
                    pdatastructs::verif::set_kick_budget(None);
                    return;
                }
                hist.clear();
            }
            if clone_at == Some(s) {
                f = f.clone();
            }
            let op = if r.chance(p_del) {
                // delete: mostly stored classes, sometimes absent ones
                if m.n > 0 && r.chance(0.8) {
                    // pick a key of a stored class
                    let mut k = *r.pick(&universe);
                    for _ in 0..8 {
                        if m.count[m.class(k)] > 0 {
                            break;
                        }
                        k = *r.pick(&universe);
                    }
                    Op::Delete(k)
                } else {
                    Op::Delete(*r.pick(&universe))
                }
            } else if style == 3 && r.chance(0.5) {
                Op::Insert(hot) // repeated inserts of one element
            } else {
                Op::Insert(*r.pick(&universe))
            };
            hist.push(op.clone());
            rep.evaluations += 1;
            match step(&mut f, &mut m, &op, &mut queries) {
                Err((sig, what)) => {
                    rep.violation(
                        sig,
                        format!("{}: after {} ops: {}", label, hist.len(), what),
                        json!({"config": c, "kick_budget": kb, "history": hist.iter().map(op_json).collect::<Vec<_>>(), "state": f.dump()}),
                    );
                    rep.count("sweep_queries", queries);
                    pdatastructs::verif::set_kick_budget(None);
                    return;
                }
                Ok(out) => {
                    if out == "full" || out == "delete-absent" {
                        nontrivial = true;
                    }
                }
            }
            if s % 16 == 15 || s + 1 == n_ops {
                rep.count("deletable_probes", 1);
                let pr = guarded(|| probe_deletable(&f, &m));
                let pr = match pr {
                    Ok(p) => p,
                    Err(msg) => Err((format!("C14/panic/probe/{}", panic_class(&msg)), msg)),
                };
                if let Err((sig, what)) = pr {
                    rep.violation(
                        sig,
                        format!("{}: after {} ops: {}", label, hist.len(), what),
                        json!({"config": c, "kick_budget": kb, "history": hist.iter().map(op_json).collect::<Vec<_>>(), "state": f.dump()}),
                    );
                    pdatastructs::verif::set_kick_budget(None);
                    return;
                }
            }
        }
        pdatastructs::verif::set_kick_budget(None);
        let snap = pdatastructs::verif::snapshot();
        let d = |e: Event| snap[e as usize] - snap0[e as usize];
        rep.count("histories", 1);
        if d(Event::CuckooKick) > 0 || d(Event::CuckooDeleteSecond) > 0 {
            nontrivial = true;
        }
        if nontrivial {
            let mut h = CaseHash::new(&label);
            for o in &hist {
                match o {
                    Op::Insert(k) => h.push(*k),
                    Op::Delete(k) => h.push(!*k),
                }
            }
            rep.nontrivial(h.0);
            rep.count("histories_nontrivial", 1);
            if rep.want_sample() && hist.len() <= 12 {
                rep.sample(json!({"config": label, "kick_budget": kb, "history": hist.iter().map(op_json).collect::<Vec<_>>(), "final_len": m.n}));
            }
        }
    }
    rep.count("sweep_queries", queries);
}

pub fn run(ctx: &Ctx) -> Report {
    let n_ex = ctx.tier.pick(6, 12);
    let n_random = match (ctx.tier, ctx.is_dbg()) {
        (Tier::Quick, false) => 4000,
        (Tier::Quick, true) => 800,
        (Tier::Thorough, false) => 80_000,
        (Tier::Thorough, true) => 8000,
    };
    let mut rep = par_run(ctx, n_ex + n_random, |i, rep| {
        if i < n_ex {
            exhaustive(ctx, i, rep);
        } else {
            random_item(ctx, i - n_ex, rep);
        }
    });
    rep.require_events(&[
        "CuckooInsertFirst",
        "CuckooInsertSecond",
        "CuckooKick",
        "CuckooInsertAfterKick",
        "CuckooInsertFailed",
        "CuckooDeleteFirst",
        "CuckooDeleteSecond",
        "CuckooDeleteMiss",
    ]);
    rep
}
