//! C08 — CountMinSketch meets its (epsilon, delta) point-query guarantee.
use crate::infra::hashers::{CtlBuildHasher, HMode};
use crate::infra::rngs::FastRng;
use crate::infra::stats;
use crate::infra::*;
use pdatastructs::countminsketch::CountMinSketch;
use serde_json::json;
use std::sync::Mutex;

pub const RULE: &str = "grid eps in {0.95, 0.7 (w = 3, 4), 0.3,0.1,0.03,0.01, e/64, e/1024 (power-of-two widths), 1e-5 and 2e-5 (tables of 1.4-2.7x10^5 columns; adversarial stream, 20000 queried elements per seed)} x delta in {0.9,0.5,0.2,0.05,0.01,1e-3,1e-4} x stream in {uniform, zipf(1.1), adversarial-heavy (floor(0.9/eps) heavy hitters each just above eps*N plus a light tail that is queried), the same into a sketch reused after clear()}; per cell S independent seeded hashers (Mix; SipHash on a subset), 400-500 queried elements per seed; failure = overestimate > eps*N; verdict on the per-seed failure fractions: violated iff mean - 5*SE > delta in two independent stages (fresh seeds, 4x trials). non-trivial = (cell, seed) execution whose stream had total weight > 0 and >= 100 queried elements; distinct = (cell, seed) pairs";
pub const ASSUMPTIONS: &[&str] = &[
    "the fraction is taken over (hasher seed, queried element) pairs as the property states",
    "known finding: double hashing makes two keys that agree on (h1 mod w, h2 mod w) collide in every row, so the failure fraction has a floor of about H/w^2 independent of d; cells below that floor are listed in known_findings.json with a magnitude envelope",
];

type Cms = CountMinSketch<u64, u64, CtlBuildHasher>;

#[derive(Clone, Copy, Debug, PartialEq)]
pub enum Stream {
    Uniform,
    Zipf,
    Adversarial,
    /// an unrelated stream, clear(), then the adversarial stream into the reused sketch
    AdversarialAfterClear,
}

impl Stream {
    fn name(&self) -> &'static str {
        match self {
            Stream::Uniform => "uniform",
            Stream::Zipf => "zipf",
            Stream::Adversarial => "adversarial-heavy",
            Stream::AdversarialAfterClear => "adversarial-heavy-after-clear",
        }
    }
}

/// returns (failures, queried, w, d)
fn one_seed(eps: f64, delta: f64, stream: Stream, bh: CtlBuildHasher, r: &mut FastRng) -> (u64, u64, usize, usize) {
    let mut c = Cms::with_point_query_properties_and_hasher(eps, delta, bh);
    let (w, d) = (c.w(), c.d());
    let key_base = r.next();
    let key = |i: u64| key_base.wrapping_add(i.wrapping_mul(0x9E37_79B9_7F4A_7C15));
    let mut items: Vec<(u64, u64)> = vec![]; // (key, weight)
    let queried: std::ops::Range<usize>;
    match stream {
        Stream::Uniform => {
            let n = 2000;
            for i in 0..n {
                items.push((key(i), 1 + r.below(10)));
            }
            queried = 0..500;
        }
        Stream::Zipf => {
            let n = 2000u64;
            for i in 0..n {
                let wgt = (20000.0 / ((i + 1) as f64).powf(1.1)).ceil() as u64;
                items.push((key(i), wgt));
            }
            // query a spread of ranks
            r.shuffle(&mut items);
            queried = 0..500;
        }
        Stream::Adversarial | Stream::AdversarialAfterClear => {
            if stream == Stream::AdversarialAfterClear {
                // previous life of the sketch: a dense unrelated stream, then clear()
                // heavy enough that every cell it touched stays far above eps*N of the second life
                for i in 0..20_000u64 {
                    c.add_n(&key(2_000_000 + i), &(1_000_000_000 + i % 7));
                }
                c.clear();
            }
            let h = ((0.9 / eps).floor() as u64).max(1);
            let l = if eps < 1e-4 { 20_000u64 } else { 2000u64 };
            // heavy weight hw just above eps*N with N = h*hw + l
            let mut hw = ((eps * l as f64 + 1.0) / (1.0 - eps * h as f64)).ceil() as u64;
            loop {
                let n = h * hw + l;
                if (hw as f64) > eps * n as f64 {
                    break;
                }
                hw += 1;
            }
            for i in 0..l {
                items.push((key(i), 1));
            }
            for i in 0..h {
                items.push((key(1_000_000 + i), hw));
            }
            queried = if eps < 1e-4 { 0..l as usize } else { 0..500 };
        }
    }
    let total: u64 = items.iter().map(|x| x.1).sum();
    for (i, (k, n)) in items.iter().enumerate() {
        if i & 0x3ff == 0 {
            beat();
        }
        c.add_n(k, n);
    }
    let thr = eps * total as f64;
    let mut fails = 0;
    let mut q = 0;
    for (k, t) in &items[queried] {
        let est = c.query_point(k);
        q += 1;
        if (est - t) as f64 > thr {
            fails += 1;
        }
    }
    (fails, q, w, d)
}

struct CellResult {
    fracs: Vec<f64>,
    fails: u64,
    queried: u64,
    w: usize,
    d: usize,
}

fn run_cell(ctx: &Ctx, eps: f64, delta: f64, stream: Stream, mode: HMode, stage: u64, seeds: usize) -> CellResult {
    let chunks = 16.min(seeds);
    let per = seeds.div_ceil(chunks);
    let out: Mutex<Vec<(usize, Vec<f64>, u64, u64, usize, usize)>> = Mutex::new(vec![]);
    let _ = par_run(ctx, chunks, |ci, _| {
        let mut fr = vec![];
        let (mut f, mut q, mut w, mut d) = (0, 0, 0, 0);
        for s in (ci * per)..((ci + 1) * per).min(seeds) {
            let sd = ctx.sub_seed(&[stage, (eps * 1e6) as u64, (delta * 1e9) as u64, stream as u64, mode_tag(mode), s as u64]);
            let mut r = FastRng::new(sd);
            let bh = CtlBuildHasher::new(mode, r.next());
            let (ff, qq, ww, dd) = one_seed(eps, delta, stream, bh, &mut r);
            fr.push(ff as f64 / qq as f64);
            f += ff;
            q += qq;
            w = ww;
            d = dd;
        }
        out.lock().unwrap().push((ci, fr, f, q, w, d));
    });
    let mut parts = out.into_inner().unwrap();
    parts.sort_by_key(|p| p.0);
    let mut res = CellResult { fracs: vec![], fails: 0, queried: 0, w: 0, d: 0 };
    for (_, fr, f, q, w, d) in parts {
        res.fracs.extend(fr);
        res.fails += f;
        res.queried += q;
        res.w = w;
        res.d = d;
    }
    res
}

fn mode_tag(m: HMode) -> u64 {
    match m {
        HMode::Mix => 1,
        HMode::Sip => 2,
        _ => 3,
    }
}

pub fn run(ctx: &Ctx) -> Report {
    let mut rep = Report::new();
    let seeds = ctx.tier.pick(1500, 12_000);
    // e/1024 and e/64: widths that are exact powers of two
    // 1e-5 and 2e-5: tables of more than 10^5 columns (a constructor that silently caps the table
    // size, or loses precision in ceil(e/eps), shows only there)
    // 0.95 and 0.7: the narrowest tables there are (w = 3 and 4), where one unused column matters
    let epss = [0.95, 0.7, 0.3, 0.1, 0.03, 0.01, std::f64::consts::E / 1024.0, std::f64::consts::E / 64.0, 1e-5, 2e-5];
    let deltas = [0.9, 0.5, 0.2, 0.05, 0.01, 1e-3, 1e-4];
    let mut cells = vec![];
    for &eps in &epss {
        for &delta in &deltas {
            for stream in [Stream::Uniform, Stream::Zipf, Stream::Adversarial, Stream::AdversarialAfterClear] {
                if stream == Stream::AdversarialAfterClear && !(delta == 0.2 || delta == 0.05) {
                    continue;
                }
                let pow2 = (eps - std::f64::consts::E / 1024.0).abs() < 1e-12 || (eps - std::f64::consts::E / 64.0).abs() < 1e-12;
                if pow2 && (stream != Stream::Adversarial || !(delta == 0.5 || delta == 0.2 || delta == 0.05)) {
                    continue; // power-of-two widths: adversarial stream, moderate delta only
                }
                if eps > 0.5 && !(delta == 0.5 || delta == 0.2 || delta == 0.05) {
                    continue; // tiny tables: moderate deltas (d = 1, 2, 3)
                }
                let wide = eps < 1e-4;
                if wide && (stream != Stream::Adversarial || !((eps == 1e-5 && (delta == 0.05 || delta == 0.01)) || (eps == 2e-5 && delta == 1e-4))) {
                    continue; // very wide tables: adversarial stream, three (eps, delta) pairs
                }
                for mode in [HMode::Mix, HMode::Sip] {
                    if mode == HMode::Sip && !(stream == Stream::Adversarial && (delta == 0.05 || delta == 0.2 || delta == 1e-3)) {
                        continue;
                    }
                    let label = format!("eps={}/delta={}/{}{}", eps, delta, stream.name(), if mode == HMode::Sip { "/siphash" } else { "" });
                    if let Some(o) = &ctx.only {
                        if !label.contains(o.as_str()) {
                            continue;
                        }
                    }
                    let seeds = if wide { ctx.tier.pick(48, 200) } else { seeds };
                    let s1 = run_cell(ctx, eps, delta, stream, mode, 1, seeds);
                    rep.evaluations += s1.queried;
                    for i in 0..s1.fracs.len() {
                        let mut h = CaseHash::new(&label);
                        h.push(i as u64);
                        rep.nontrivial(h.0);
                    }
                    let m1 = stats::mean(&s1.fracs);
                    let se1 = stats::se(&s1.fracs);
                    rep.config(format!("{} w={} d={}", label, s1.w, s1.d));
                    let flagged = m1 - 5.0 * se1 > delta;
                    let mut cell = json!({"cell": label, "w": s1.w, "d": s1.d, "seeds": s1.fracs.len(), "queried_pairs": s1.queried, "failures": s1.fails, "failure_fraction": m1, "se": se1, "delta": delta, "ratio_to_delta": m1 / delta, "flagged": flagged});
                    rep.max("worst_failure_fraction_over_delta(unflagged cells)", if flagged { 0.0 } else { m1 / delta });
                    if flagged {
                        let s2 = run_cell(ctx, eps, delta, stream, mode, 2, seeds * 4);
                        rep.evaluations += s2.queried;
                        let m2 = stats::mean(&s2.fracs);
                        let se2 = stats::se(&s2.fracs);
                        cell["stage2"] = json!({"seeds": s2.fracs.len(), "failure_fraction": m2, "se": se2});
                        if m2 - 5.0 * se2 > delta {
                            rep.violation_mag(
                                format!("C08/{}", label),
                                format!("CountMinSketch::with_point_query_properties({}, {}) (w={}, d={}), {} stream: overestimate > eps*N for a fraction {:.5} (stage 1, {} seeds) / {:.5} (stage 2, {} fresh seeds) of (seed, element) pairs, above delta = {}", eps, delta, s1.w, s1.d, stream.name(), m1, s1.fracs.len(), m2, s2.fracs.len(), delta),
                                json!({"eps": eps, "delta": delta, "stream": stream.name(), "w": s1.w, "d": s1.d, "stage1": {"fraction": m1, "se": se1}, "stage2": {"fraction": m2, "se": se2}}),
                                m2.max(m1),
                            );
                        }
                    }
                    if rep.want_sample() && stream == Stream::Adversarial {
                        rep.sample(cell.clone());
                    }
                    cells.push(cell);
                }
            }
        }
    }
    rep.extra.insert("cells".into(), json!(cells));
    rep
}
