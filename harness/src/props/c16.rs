//! C16 — T-Digest aggregates are exact regardless of compression.
use crate::infra::rngs::FastRng;
use crate::infra::stats::DD;
use crate::infra::td::*;
use crate::infra::*;
use serde_json::{json, Value};

pub const RULE: &str = "random histories of insert / insert_weighted (weights over 12 orders of magnitude, incl. zero weights, subnormal weights, 2^54, and rare extreme values (1e25) of weight 1e-15..1e-18) / reads at random positions / clear, for K0..K3, delta from 1.1 (total fusion) to 1e4 (no fusion), backlog 0..1000; double-double reference accumulation; count/sum/mean within 4*n*eps_mach*sum|w*x| (exact for unit weights), min/max exact, zero-weight inserts leave every observable bit-identical, is_empty iff no positive weight since creation/clear; checked after every operation for short histories and at random positions for long ones. non-trivial = history with >= 1 fuse and >= 1 weighted insert or interleaved read; distinct = (config, history) hashes";
pub const ASSUMPTIONS: &[&str] = &["reference sums use TwoSum/FMA error-free transformations (double-double)"];

#[derive(Clone, Debug)]
enum Op {
    Ins(f64),
    InsW(f64, f64),
    Zero(f64),
    Read,
    Clear,
}

fn op_json(o: &Op) -> Value {
    match o {
        Op::Ins(x) => json!({"insert": x}),
        Op::InsW(x, w) => json!({"insert_weighted": [x, w]}),
        Op::Zero(x) => json!({"insert_weighted": [x, 0.0]}),
        Op::Read => json!("read"),
        Op::Clear => json!("clear"),
    }
}

struct Ref {
    n: u64,
    unit_only: bool,
    w: DD,
    wx: DD,
    abs_wx: f64,
    min: f64,
    max: f64,
}

impl Ref {
    fn new() -> Self {
        Ref { n: 0, unit_only: true, w: DD::default(), wx: DD::default(), abs_wx: 0.0, min: f64::INFINITY, max: f64::NEG_INFINITY }
    }
}

fn check(t: &dyn Td, r: &Ref) -> Option<(String, String)> {
    let eps = f64::EPSILON;
    let nf = r.n.max(1) as f64;
    // is_empty() first: every other read compresses the backlog and could mask a stale answer
    if t.is_empty() != (r.n == 0) {
        return Some(("C16/is_empty".into(), format!("is_empty() = {} (read before any other accessor) after {} positive-weight inserts", t.is_empty(), r.n)));
    }
    let (mn0, mx0) = (t.min(), t.max());
    if r.n > 0 && (mn0 != r.min || mx0 != r.max) {
        return Some((if mn0 != r.min { "C16/min" } else { "C16/max" }.into(), format!("min()/max() = {:e}/{:e} (read before any compressing accessor) but the extreme inserted values are {:e}/{:e}", mn0, mx0, r.min, r.max)));
    }
    let cnt = t.count();
    let wref = r.w.value();
    if r.unit_only {
        if cnt != r.n as f64 {
            return Some(("C16/count/unit-weights-not-exact".into(), format!("count() = {} after {} unit-weight inserts", cnt, r.n)));
        }
    } else if (cnt - wref).abs() > 4.0 * nf * eps * wref + f64::MIN_POSITIVE {
        return Some(("C16/count".into(), format!("count() = {:e} but the weights sum to {:e} (tolerance {:e})", cnt, wref, 4.0 * nf * eps * wref)));
    }
    if t.is_empty() != (r.n == 0) {
        return Some(("C16/is_empty".into(), format!("is_empty() = {} after {} positive-weight inserts", t.is_empty(), r.n)));
    }
    if r.n == 0 {
        if cnt != 0.0 || t.sum() != 0.0 {
            return Some(("C16/empty-aggregates".into(), format!("empty digest: count {} sum {}", cnt, t.sum())));
        }
        return None;
    }
    let s = t.sum();
    let sref = r.wx.value();
    let tol = 4.0 * nf * eps * r.abs_wx + f64::MIN_POSITIVE;
    if (s - sref).abs() > tol {
        return Some(("C16/sum".into(), format!("sum() = {:e} but the weighted sum is {:e} (diff {:e}, tolerance {:e})", s, sref, s - sref, tol)));
    }
    let m = t.mean();
    let mref = sref / wref;
    let mtol = tol / wref + 8.0 * nf * eps * mref.abs() + f64::MIN_POSITIVE;
    if (m - mref).abs() > mtol || m.is_nan() {
        return Some(("C16/mean".into(), format!("mean() = {:e} but the weighted mean is {:e} (tolerance {:e})", m, mref, mtol)));
    }
    // again after the compressing reads above (a merge must not move the extremes)
    if t.min() != r.min {
        return Some(("C16/min".into(), format!("min() = {:e} after a compressing read but the smallest inserted value is {:e}", t.min(), r.min)));
    }
    if t.max() != r.max {
        return Some(("C16/max".into(), format!("max() = {:e} after a compressing read but the largest inserted value is {:e}", t.max(), r.max)));
    }
    None
}

fn observables(t: &dyn Td) -> Vec<u64> {
    let mut v = vec![t.count().to_bits(), t.sum().to_bits(), t.min().to_bits(), t.max().to_bits(), t.is_empty() as u64, t.n_centroids() as u64];
    if !t.is_empty() {
        for q in [0.0, 0.1, 0.5, 0.9, 1.0] {
            v.push(t.quantile(q).to_bits());
        }
        let q3 = t.quantile(0.3);
        if !q3.is_nan() {
            // (a digest whose total weight is subnormal returns NaN here: half a centroid's weight
            // underflows to 0 — outside C15's weight range, see DESIGN §8)
            v.push(t.cdf(q3).to_bits());
        }
    }
    v
}

fn item(ctx: &Ctx, i: usize, rep: &mut Report) {
    let mut r = FastRng::new(ctx.sub_seed(&[i as u64]));
    let sf = ALL_SF[i % 4];
    let delta = *r.pick(&[1.1, 1.5, 2.0, 5.0, 10.0, 20.0, 100.0, 300.0, 1000.0, 1e4]);
    let backlog = *r.pick(&[0usize, 1, 2, 10, 100, 1000]);
    let label = format!("tdigest({},delta={},backlog={})", sf.name(), delta, backlog);
    rep.config(&label);
    let long = r.chance(0.15);
    let n_ops = if long { 2000 + r.below(ctx.tier.pick(20_000, 200_000)) as usize } else { 1 + r.below(80) as usize };
    let weighted = r.chance(0.6);
    let wexp = if r.chance(0.5) { 6.0 } else { 2.0 };
    let vscale = *r.pick(&[1.0, 1e-6, 1e6, 1e12]);
    let fam = *r.pick(&[Family::Uniform, Family::Normal, Family::Pareto, Family::Discrete3, Family::Sorted, Family::Constant, Family::TwoClusters]);
    let mut t = make_td(sf, delta, backlog);
    let mut rf = Ref::new();
    let mut hist: Vec<Op> = vec![];
    let keep_hist = !long;
    let snap0 = pdatastructs::verif::snapshot();
    let mut had_read = false;
    let check_every = if long { 1 + r.below(500) as usize } else { 1 };
    let clone_at = if r.chance(0.25) { Some(r.below(n_ops as u64) as usize) } else { None };
    for s in 0..n_ops {
        let x = r.f64();
        let val = fam.gen(&mut r, s, n_ops) * vscale;
        let op = if x < 0.004 {
            Op::Clear
        } else if x < 0.05 {
            Op::Read
        } else if x < 0.10 {
            Op::Zero(val)
        } else if weighted && x < 0.12 {
            // corner weights: subnormal positive weights, and rare extreme values of tiny weight
            match r.below(4) {
                0 => Op::InsW(val * 3.0, *r.pick(&[5e-324, 1e-310, 2e-308])),
                1 => Op::InsW(1e25 * (1.0 + r.f64()), 10f64.powf(-15.0 - 3.0 * r.f64())),
                2 => Op::InsW(-1e22 * (1.0 + r.f64()), 10f64.powf(-15.0 - 3.0 * r.f64())),
                _ => Op::InsW(val, 2f64.powi(54)),
            }
        } else if weighted && x < 0.7 {
            let w = 10f64.powf((r.f64() * 2.0 - 1.0) * wexp);
            Op::InsW(val, w)
        } else {
            Op::Ins(val)
        };
        if keep_hist {
            hist.push(op.clone());
        }
        rep.evaluations += 1;
        if clone_at == Some(s) {
            t = t.boxed_clone();
        }
        let res = guarded(|| -> Option<(String, String)> {
            match &op {
                Op::Ins(v) => {
                    t.insert(*v);
                    rf.n += 1;
                    rf.w.add(1.0);
                    rf.wx.add(*v);
                    rf.abs_wx += v.abs();
                    rf.min = rf.min.min(*v);
                    rf.max = rf.max.max(*v);
                }
                Op::InsW(v, w) => {
                    t.insert_weighted(*v, *w);
                    rf.n += 1;
                    rf.unit_only = rf.unit_only && *w == 1.0;
                    rf.w.add(*w);
                    rf.wx.add_prod(*v, *w);
                    rf.abs_wx += (v * w).abs();
                    rf.min = rf.min.min(*v);
                    rf.max = rf.max.max(*v);
                }
                Op::Zero(v) => {
                    let before = observables(t.as_ref());
                    t.insert_weighted(*v, 0.0);
                    let after = observables(t.as_ref());
                    if before != after {
                        return Some(("C16/zero-weight-insert-changes-state".into(), format!("insert_weighted({:e}, 0) changed an observable (count/sum/min/max/is_empty/n_centroids/quantiles)", v)));
                    }
                }
                Op::Read => {
                    let _ = t.count();
                    if rf.n > 0 {
                        let _ = t.quantile(r.f64());
                        let _ = t.cdf(val);
                    }
                }
                Op::Clear => {
                    t.clear();
                    rf = Ref::new();
                }
            }
            if s % check_every == 0 || s + 1 == n_ops || matches!(op, Op::Clear | Op::Read) {
                check(t.as_ref(), &rf)
            } else {
                None
            }
        });
        if matches!(op, Op::Read) {
            had_read = true;
        }
        let bad = match res {
            Ok(None) => None,
            Ok(Some(b)) => Some(b),
            Err(msg) => Some((format!("C16/panic/{}", panic_class(&msg)), format!("panicked: {}", msg))),
        };
        if let Some((sig, what)) = bad {
            rep.violation(
                format!("{}/{}", sig, sf.name()),
                format!("{}: after {} ops ({} positive-weight inserts): {}", label, s + 1, rf.n, what),
                json!({"scale": sf, "delta": delta, "backlog": backlog, "family": fam.name(), "value_scale": vscale, "history": if keep_hist { json!(hist.iter().map(op_json).collect::<Vec<_>>()) } else { json!(format!("{} ops, regenerate with seed", s + 1)) }, "item": i}),
            );
            return;
        }
    }
    let snap = pdatastructs::verif::snapshot();
    let fused = snap[Event::TdFuse as usize] - snap0[Event::TdFuse as usize];
    rep.count("histories", 1);
    if fused > 0 && (weighted || had_read) {
        let mut h = CaseHash::new(&label);
        h.push(i as u64);
        h.push(n_ops as u64);
        rep.nontrivial(h.0);
        if rep.want_sample() && keep_hist && hist.len() <= 8 {
            rep.sample(json!({"config": label, "history": hist.iter().map(op_json).collect::<Vec<_>>()}));
        }
    }
}

pub fn run(ctx: &Ctx) -> Report {
    let n = ctx.tier.pick(12_000, 200_000);
    let mut rep = par_run(ctx, n, |i, rep| item(ctx, i, rep));
    rep.require_events(&["TdMerge", "TdFuse"]);
    rep
}
