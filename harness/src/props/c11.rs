//! C11 — memory is bounded by the configuration, not by the stream.
//!
//! Oracle: counting global allocator (thread-local live bytes). A measurement brackets the
//! construction and the workload of one structure on one thread, so the delta is the heap held by
//! that structure. Thorough tier: the same driver runs under `valgrind --tool=massif` and massif's
//! peak must agree with the monitor's peak.
use crate::infra::alloc;
use crate::infra::flt::*;
use crate::infra::hashers::{CtlBuildHasher, HMode};
use crate::infra::rngs::{CtlRng, FastRng};
use crate::infra::td::*;
use crate::infra::*;
use pdatastructs::countminsketch::CountMinSketch;
use pdatastructs::hyperloglog::HyperLogLog;
use pdatastructs::reservoirsampling::ReservoirSampling;
use pdatastructs::topk::cmsheap::CMSHeap;
use pdatastructs::topk::lossycounter::LossyCounter;
use serde_json::json;

/// Heap allowance per tracked element of the map / tree based structures (CMSHeap, LossyCounter),
/// for u64 elements: a hash-map slot plus an ordered-index entry, each with its container's growth
/// slack, and room for a few more words per entry. The pinned tree uses up to ~110 B. The first
/// value here (160 B) was calibrated too closely to the pinned layout: a neutral change that added an
/// 8-byte insertion stamp to every CMSHeap entry (168 B/entry at k = 1000) tripped it although "k items
/// within a small constant factor" plainly still holds.
pub const PER_ENTRY: f64 = 320.0;

pub const RULE: &str = "per structure a grid of configurations (cuckoo fingerprint / quotient remainder widths 2,3,5,8,13,16,32,52,64); live heap bytes attributed to the structure (counting allocator, thread-local) measured after construction, after streams of 1e3, 1e4, 1e5 (1e6 thorough) elements, after 100 fill-clear-refill cycles and after 1000 failed inserts/unions; each must stay <= c*ideal(config) + slack with c = 2 (+1 KiB) for exactly-allocated arrays, 4 for Vec-growth structures, <= 320 B/entry (40 machine words per tracked u64 element) for map/tree based ones (LossyCounter against width*(H(ceil(n/width))+1) entries); thorough: massif peak vs monitor peak within 10 %. non-trivial = measurement of a structure that processed >= 1000 elements; distinct = (structure, configuration, stream length) tuples";
pub const ASSUMPTIONS: &[&str] = &[
    "requested sizes are counted (allocator rounding and metadata are not)",
    "the measuring thread allocates nothing else between the bracketing reads except harness scratch that is dropped before the second read",
];

struct Meas {
    what: String,
    ideal: f64,
    c: f64,
    slack: f64,
}

fn check(rep: &mut Report, m: &Meas, stage: &str, bytes: isize, n: usize, wit: serde_json::Value) -> bool {
    rep.evaluations += 1;
    let allowed = m.c * m.ideal + m.slack;
    let ratio = bytes as f64 / m.ideal.max(1.0);
    let fam = m.what.split('(').next().unwrap_or("?").to_string();
    rep.max(&format!("bytes_over_ideal/{}", fam), ratio);
    if n >= 1000 {
        let mut h = CaseHash::new(&m.what);
        h.push_str(stage);
        h.push(n as u64);
        rep.nontrivial(h.0);
    }
    if (bytes as f64) > allowed {
        rep.violation_mag(
            format!("C11/{}/{}", fam, stage),
            format!("{} holds {} heap bytes {} (n = {}) but its configuration implies about {:.0} bytes (allowed {:.0} = {} x ideal + {})", m.what, bytes, stage, n, m.ideal, allowed, m.c, m.slack),
            json!({"structure": m.what, "stage": stage, "bytes": bytes, "ideal": m.ideal, "allowed": allowed, "n": n, "config": wit}),
            ratio,
        );
        return false;
    }
    true
}

fn stream_lengths(ctx: &Ctx) -> Vec<usize> {
    let mut v = vec![1000, 10_000, 100_000];
    if ctx.tier == Tier::Thorough {
        v.push(1_000_000);
    }
    v
}

// each block: baseline = live(); build; measure; workload; measure ...
// measure, then hide the harness's own bookkeeping allocations (report maps, sets) from later reads
macro_rules! chk {
    ($rep:expr, $m:expr, $stage:expr, $base:ident, $n:expr, $wit:expr) => {{
        let h = alloc::live() - $base;
        let p0 = alloc::live();
        let ok = check($rep, $m, $stage, h, $n, $wit);
        $base += alloc::live() - p0;
        ok
    }};
}

macro_rules! held {
    ($base:expr) => {
        alloc::live() - $base
    };
}

fn filters(ctx: &Ctx, which: usize, rep: &mut Report) {
    let widths = [2usize, 3, 5, 8, 13, 16, 32, 52, 64];
    let mut r = FastRng::new(ctx.sub_seed(&[which as u64]));
    let lens = stream_lengths(ctx);
    match which {
        0 => {
            // cuckoo
            for &l in &widths {
                for &(bsz, nb) in &[(2usize, 2usize), (4, 64), (4, 1024), (8, 4096)] {
                    let slots = bsz * nb;
                    let m = Meas { what: format!("cuckoo(b={},n={},l={})", bsz, nb, l), ideal: (slots * l) as f64 / 8.0, c: 2.0, slack: 1024.0 };
                    rep.config(&m.what);
                    let wit = json!({"bucketsize": bsz, "n_buckets": nb, "l_fingerprint": l});
                    let mut base = alloc::live();
                    let cfg = CuckooCfg { bucketsize: bsz, n_buckets: nb, l, bh: CtlBuildHasher::new(HMode::Mix, 5), rng: RngSpec::Fast(9) };
                    let mut f = cfg.make();
                    if !chk!(rep, &m, "after-construction", base, 0, wit.clone()) {
                        continue;
                    }
                    let mut done = 0usize;
                    // long streams into a full table: cap evictions per insert so that the run is
                    // about stream length, not about 500 kicks per failing insert
                    pdatastructs::verif::set_kick_budget(Some(8));
                    for &n in &lens {
                        while done < n {
                            beat();
                            let _ = Flt::insert(&mut f, r.next());
                            if done % 3 == 2 {
                                let _ = Flt::delete(&mut f, r.next());
                            }
                            done += 1;
                        }
                        chk!(rep, &m, "after-stream", base, n, wit.clone());
                    }
                    pdatastructs::verif::set_kick_budget(None);
                    // failed inserts (table is full by now) and failed unions
                    let other = {
                        let mut o = cfg.make();
                        for _ in 0..slots {
                            let _ = Flt::insert(&mut o, r.next());
                        }
                        o
                    };
                    let base2 = alloc::live();
                    for _ in 0..1000 {
                        let _ = Flt::insert(&mut f, r.next());
                    }
                    for _ in 0..20 {
                        let _ = Flt::union(&mut f, &other);
                    }
                    let grown = alloc::live() - base2;
                    if grown > 256 {
                        rep.violation(format!("C11/cuckoo/failed-operations-grow"), format!("{}: 1000 failed inserts + 20 unions raised the live heap by {} bytes", m.what, grown), wit.clone());
                    }
                    drop(other);
                    // fill -> clear -> refill cycles
                    let mut level = 0isize;
                    for cyc in 0..100 {
                        Flt::clear(&mut f);
                        for _ in 0..slots.min(2000) {
                            let _ = Flt::insert(&mut f, r.next());
                        }
                        let h = held!(base);
                        if cyc == 0 {
                            level = h;
                        } else if h as f64 > level as f64 * 1.05 + 256.0 {
                            rep.violation("C11/cuckoo/clear-refill-grows", format!("{}: heap grew from {} to {} bytes over {} clear/refill cycles", m.what, level, h, cyc + 1), wit.clone());
                            break;
                        }
                    }
                    chk!(rep, &m, "after-clear-refill-cycles", base, done, wit.clone());
                }
            }
        }
        1 => {
            // quotient
            for &rb in &widths {
                for &q in &[2usize, 8, 12, 15] {
                    if q + rb > 64 {
                        continue;
                    }
                    let slots = 1usize << q;
                    let m = Meas { what: format!("quotient(q={},r={})", q, rb), ideal: (slots * (rb + 3)) as f64 / 8.0, c: 2.0, slack: 1024.0 };
                    rep.config(&m.what);
                    let wit = json!({"bits_quotient": q, "bits_remainder": rb});
                    let mut base = alloc::live();
                    let cfg = QfCfg { q, r: rb, bh: CtlBuildHasher::new(HMode::Mix, 5) };
                    let mut f = cfg.make();
                    if !chk!(rep, &m, "after-construction", base, 0, wit.clone()) {
                        continue;
                    }
                    let mut done = 0usize;
                    // an insert into a full table walks the whole (single) cluster: cap that work
                    let cap = slots + ctx.tier.pick(40_000_000, 400_000_000) / slots;
                    for &n in &lens {
                        let n = n.min(cap);
                        while done < n {
                            beat();
                            let _ = Flt::insert(&mut f, r.next());
                            done += 1;
                        }
                        chk!(rep, &m, "after-stream", base, n, wit.clone());
                    }
                    let other = {
                        let mut o = cfg.make();
                        for _ in 0..slots {
                            let _ = Flt::insert(&mut o, r.next());
                        }
                        o
                    };
                    let base2 = alloc::live();
                    for _ in 0..1000.min(40_000_000 / slots) {
                        let _ = Flt::insert(&mut f, r.next());
                    }
                    // a union of two full tables costs slots^2 slot visits
                    for _ in 0..(40_000_000 / (slots * slots)).clamp(1, 20) {
                        let _ = Flt::union(&mut f, &other);
                    }
                    let grown = alloc::live() - base2;
                    if grown > 256 {
                        rep.violation("C11/quotient/failed-operations-grow", format!("{}: 1000 failed inserts + 20 failed unions raised the live heap by {} bytes", m.what, grown), wit.clone());
                    }
                    drop(other);
                    let mut level = 0isize;
                    for cyc in 0..100 {
                        Flt::clear(&mut f);
                        for _ in 0..slots.min(2000) {
                            let _ = Flt::insert(&mut f, r.next());
                        }
                        let h = held!(base);
                        if cyc == 0 {
                            level = h;
                        } else if h as f64 > level as f64 * 1.05 + 256.0 {
                            rep.violation("C11/quotient/clear-refill-grows", format!("{}: heap grew from {} to {} bytes over {} clear/refill cycles", m.what, level, h, cyc + 1), wit.clone());
                            break;
                        }
                    }
                    chk!(rep, &m, "after-clear-refill-cycles", base, done, wit.clone());
                }
            }
        }
        _ => {
            // bloom
            for &(mbits, k) in &[(64usize, 1usize), (1000, 3), (100_000, 7), (8_000_000, 5)] {
                let m = Meas { what: format!("bloom(m={},k={})", mbits, k), ideal: mbits as f64 / 8.0, c: 2.0, slack: 1024.0 };
                rep.config(&m.what);
                let wit = json!({"m": mbits, "k": k});
                let mut base = alloc::live();
                let cfg = BloomCfg { m: mbits, k, bh: CtlBuildHasher::new(HMode::Mix, 5) };
                let mut f = cfg.make();
                chk!(rep, &m, "after-construction", base, 0, wit.clone());
                let mut done = 0usize;
                for &n in &lens {
                    while done < n {
                        let _ = Flt::insert(&mut f, r.next());
                        done += 1;
                    }
                    chk!(rep, &m, "after-stream", base, n, wit.clone());
                }
                let other = cfg.make();
                for _ in 0..100 {
                    Flt::clear(&mut f);
                    let _ = Flt::insert(&mut f, r.next());
                    let _ = Flt::union(&mut f, &other);
                }
                chk!(rep, &m, "after-clear-union-cycles", base, done, wit.clone());
            }
        }
    }
}

fn sketches(ctx: &Ctx, which: usize, rep: &mut Report) {
    let mut r = FastRng::new(ctx.sub_seed(&[100 + which as u64]));
    let lens = stream_lengths(ctx);
    match which {
        0 => {
            // CMS, several counter types
            macro_rules! cms {
                ($t:ty, $name:expr) => {
                    for &(w, d) in &[(1usize, 1usize), (272, 3), (28, 10), (4096, 4)] {
                        let m = Meas { what: format!("cms<{}>(w={},d={})", $name, w, d), ideal: (w * d * std::mem::size_of::<$t>()) as f64, c: 2.0, slack: 1024.0 };
                        rep.config(&m.what);
                        let wit = json!({"w": w, "d": d, "counter": $name});
                        let mut base = alloc::live();
                        let mut c: CountMinSketch<u64, $t, CtlBuildHasher> = CountMinSketch::with_params_and_hasher(w, d, CtlBuildHasher::new(HMode::Mix, 3));
                        chk!(rep, &m, "after-construction", base, 0, wit.clone());
                        let mut done = 0usize;
                        for &n in &lens {
                            if (n as u128) > <$t>::MAX as u128 {
                                break;
                            }
                            while done < n {
                                c.add(&r.next());
                                done += 1;
                            }
                            chk!(rep, &m, "after-stream", base, n, wit.clone());
                        }
                        for _ in 0..100 {
                            c.clear();
                            c.add(&r.next());
                            let o = c.clone();
                            c.clear();
                            c.merge(&o);
                        }
                        chk!(rep, &m, "after-clear-merge-cycles", base, done, wit.clone());
                    }
                };
            }
            cms!(u8, "u8");
            cms!(u32, "u32");
            cms!(u64, "u64");
            cms!(usize, "usize");
        }
        1 => {
            for b in [4usize, 8, 12, 16, 18] {
                let m = Meas { what: format!("hll(b={})", b), ideal: (1usize << b) as f64, c: 2.0, slack: 1024.0 };
                rep.config(&m.what);
                let wit = json!({"b": b});
                let mut base = alloc::live();
                let mut h: HyperLogLog<u64, CtlBuildHasher> = HyperLogLog::with_hash(b, CtlBuildHasher::new(HMode::Mix, 3));
                chk!(rep, &m, "after-construction", base, 0, wit.clone());
                let mut done = 0usize;
                for &n in &lens {
                    while done < n {
                        h.add(&r.next());
                        done += 1;
                    }
                    let _ = h.count();
                    chk!(rep, &m, "after-stream", base, n, wit.clone());
                }
                for _ in 0..100 {
                    h.clear();
                    h.add(&r.next());
                    let o = h.clone();
                    h.merge(&o);
                }
                chk!(rep, &m, "after-clear-merge-cycles", base, done, wit.clone());
            }
        }
        2 => {
            // T-digest
            for sf in ALL_SF {
              for wmode in 0..3usize {
                for &(delta, backlog) in &[(1.1f64, 0usize), (10.0, 10), (100.0, 1000), (1000.0, 0), (300.0, 5000)] {
                    if wmode > 0 && !(delta == 100.0 || delta == 10.0) {
                        continue;
                    }
                    // unit weights, normalised weights 1/N (total weight far below delta), weights 1e-5..1e5
                    let wname = ["unit", "1/N", "1e-5..1e5"][wmode];
                    let m = Meas { what: format!("tdigest({},delta={},backlog={},weights={})", sf.name(), delta, backlog, wname), ideal: 16.0 * (delta + 3.0 + backlog as f64 + 1.0), c: 4.0, slack: 1024.0 };
                    rep.config(&m.what);
                    let wit = json!({"scale": sf.name(), "delta": delta, "backlog": backlog});
                    let mut base = alloc::live();
                    let mut t = make_td(sf, delta, backlog);
                    let mut done = 0usize;
                    for &n in &lens {
                        // with a tiny backlog every insert triggers a merge of ~delta centroids
                        let cost = n as f64 * delta / (backlog as f64 + 1.0);
                        if cost > ctx.tier.pick(2e7, 4e8) {
                            continue;
                        }
                        while done < n {
                            let x = r.normal() * 10.0 + (done % 100) as f64;
                            match wmode {
                                0 => t.insert(x),
                                1 => t.insert_weighted(x, 1.0 / 100_000.0),
                                _ => t.insert_weighted(x, 10f64.powf(r.f64() * 10.0 - 5.0)),
                            }

                            if done % 5000 == 4999 {
                                let _ = t.quantile(0.5);
                            }
                            done += 1;
                        }
                        // quiescent point (backlog possibly non-empty)
                        chk!(rep, &m, "after-stream", base, n, wit.clone());
                        let _ = t.count();
                        chk!(rep, &m, "after-read", base, n, wit.clone());
                    }
                    for _ in 0..(if delta > 500.0 && backlog == 0 { 10 } else { 100 }) {
                        t.clear();
                        for j in 0..(delta as usize * 3 + backlog + 10) {
                            t.insert(j as f64);
                        }
                    }
                    chk!(rep, &m, "after-clear-refill-cycles", base, done, wit.clone());
                    rep.max("tdigest_final_centroids_minus_delta", t.n_centroids() as f64 - delta);
                }
              }
            }
        }
        3 => {
            for &k in &[1usize, 10, 1000, 100_000] {
                let m = Meas { what: format!("reservoir(k={})", k), ideal: (k * std::mem::size_of::<u64>()) as f64, c: 4.0, slack: 1024.0 };
                rep.config(&m.what);
                let wit = json!({"k": k});
                let mut base = alloc::live();
                let mut s: ReservoirSampling<u64, CtlRng> = ReservoirSampling::new(k, CtlRng::fast(1));
                let mut done = 0usize;
                for &n in &lens {
                    while done < n {
                        s.add(done as u64);
                        done += 1;
                    }
                    chk!(rep, &m, "after-stream", base, n, wit.clone());
                }
                for _ in 0..100 {
                    s.clear();
                    for j in 0..(5 * k).min(50_000) {
                        s.add(j as u64);
                    }
                }
                chk!(rep, &m, "after-clear-refill-cycles", base, done, wit.clone());
                // whole streams through Extend (exact and inexact size hints) into a fresh and into a
                // cleared sampler: a buffer sized from the batch instead of from k shows only here
                drop(s);
                base = alloc::live();
                let mut s: ReservoirSampling<u64, CtlRng> = ReservoirSampling::new(k, CtlRng::fast(2));
                let big = *lens.last().unwrap_or(&100_000) as u64;
                s.extend(0..big);
                chk!(rep, &m, "after-extend-of-the-whole-stream", base, big as usize, wit.clone());
                s.clear();
                s.extend((0..big).filter(|x| x % 3 != 0));
                chk!(rep, &m, "after-clear-and-extend(filtered)", base, big as usize, wit.clone());
                s.clear();
                s.extend((0..big).collect::<Vec<u64>>());
                chk!(rep, &m, "after-clear-and-extend(vec)", base, big as usize, wit.clone());
            }
        }
        4 => {
            for &k in &[1usize, 10, 100, 1000] {
                for &(w, d) in &[(16usize, 4usize), (272, 3)] {
                    let m = Meas { what: format!("cmsheap(k={},w={},d={})", k, w, d), ideal: PER_ENTRY * k as f64 + (w * d * 8) as f64, c: 1.0, slack: 2048.0 };
                    rep.config(&m.what);
                    let wit = json!({"k": k, "w": w, "d": d});
                    let mut base = alloc::live();
                    let mut h: CMSHeap<u64> = CMSHeap::new(k, CountMinSketch::with_params(w, d));
                    let mut done = 0usize;
                    for &n in &lens {
                        while done < n {
                            // rotating popularity so that displacements keep happening
                            let hot = (done / 500) as u64;
                            if done % 20_000 == 0 {
                                // a size-hinted batch through Extend
                                let batch: Vec<u64> = (0..5000).map(|_| if r.chance(0.5) { hot * 1000 + r.below(20) } else { r.next() }).collect();
                                h.extend(batch);
                                done += 5000;
                                continue;
                            }
                            h.add(if r.chance(0.5) { hot * 1000 + r.below(20) } else { r.next() });
                            done += 1;
                        }
                        chk!(rep, &m, "after-stream", base, n, wit.clone());
                    }
                    for cyc in 0..100 {
                        h.clear();
                        if cyc % 10 == 0 {
                            h.extend(0..50_000u64);
                        }
                        for j in 0..(3 * k).min(3000) {
                            h.add(j as u64);
                        }
                    }
                    chk!(rep, &m, "after-clear-refill-cycles", base, done, wit.clone());
                }
            }
        }
        _ => {
            for &width in &[1usize, 10, 100, 1000] {
                for kind in 0..3 {
                    let what = format!("lossy(width={},{})", width, ["all-distinct", "zipf", "known-element-closes-every-window"][kind]);
                    rep.config(&what);
                    let stream_name = ["all distinct", "zipf", "known element closes every window"][kind];
                    let wit = json!({"width": width, "stream": stream_name});
                    let mut base = alloc::live();
                    let mut lc: LossyCounter<u64> = LossyCounter::with_width(width);
                    let mut done = 0usize;
                    for &n in &lens {
                        while done < n {
                            let x = match kind {
                                0 => done as u64,
                                1 => ((1.0 - r.f64()).powf(-1.0 / 1.1)) as u64,
                                _ => {
                                    if (done + 1) % width == 0 || done % width == 0 {
                                        u64::MAX
                                    } else {
                                        done as u64
                                    }
                                }
                            };
                            lc.add(x);
                            done += 1;
                        }
                        let hn = {
                            let mm = n.div_ceil(width);
                            (1..=mm.min(2_000_000)).map(|i| 1.0 / i as f64).sum::<f64>()
                        };
                        let entries = width as f64 * (hn + 1.0);
                        let m = Meas { what: what.clone(), ideal: PER_ENTRY * entries, c: 1.0, slack: 2048.0 };
                        chk!(rep, &m, "after-stream", base, n, wit.clone());
                    }
                    lc.clear();
                    let m = Meas { what: what.clone(), ideal: 0.0, c: 1.0, slack: 2048.0 };
                    chk!(rep, &m, "after-clear", base, done, wit.clone());
                }
            }
        }
    }
}

// ---------------------------------------------------------------------------------------------
// massif cross-check (thorough)

/// `pdsmon mem <kind> <a> <b> <c>`: build one structure, run a small workload, print the
/// monitor's peak. Used under valgrind massif.
pub fn mem_driver(args: &[String]) -> i32 {
    let kind = args.first().map(|s| s.as_str()).unwrap_or("");
    let a: usize = args.get(1).and_then(|s| s.parse().ok()).unwrap_or(0);
    let b: usize = args.get(2).and_then(|s| s.parse().ok()).unwrap_or(0);
    let c: usize = args.get(3).and_then(|s| s.parse().ok()).unwrap_or(0);
    let mut r = FastRng::new(42);
    alloc::reset_peak();
    let mut base = alloc::live();
    match kind {
        "cuckoo" => {
            let mut f = CuckooCfg { bucketsize: a, n_buckets: b, l: c, bh: CtlBuildHasher::new(HMode::Mix, 5), rng: RngSpec::Fast(9) }.make();
            for _ in 0..3000 {
                let _ = Flt::insert(&mut f, r.next());
            }
            println!("MONITOR live={} peak={}", alloc::live() - base, alloc::peak() - base);
        }
        "quotient" => {
            let mut f = QfCfg { q: a, r: b, bh: CtlBuildHasher::new(HMode::Mix, 5) }.make();
            for _ in 0..3000 {
                let _ = Flt::insert(&mut f, r.next());
            }
            println!("MONITOR live={} peak={}", alloc::live() - base, alloc::peak() - base);
        }
        "hll" => {
            let mut h: HyperLogLog<u64, CtlBuildHasher> = HyperLogLog::with_hash(a, CtlBuildHasher::new(HMode::Mix, 3));
            for _ in 0..3000 {
                h.add(&r.next());
            }
            println!("MONITOR live={} peak={}", alloc::live() - base, alloc::peak() - base);
        }
        "bloom" => {
            let mut f = BloomCfg { m: a, k: b, bh: CtlBuildHasher::new(HMode::Mix, 5) }.make();
            for _ in 0..3000 {
                let _ = Flt::insert(&mut f, r.next());
            }
            println!("MONITOR live={} peak={}", alloc::live() - base, alloc::peak() - base);
        }
        _ => {
            eprintln!("mem: unknown kind");
            return 3;
        }
    }
    0
}

fn massif_crosscheck(rep: &mut Report) {
    let exe = format!("{}/target/monrel/pdsmon", crate::verif_dir());
    let cases: Vec<Vec<String>> = vec![
        vec!["cuckoo".into(), "4".into(), "65536".into(), "8".into()],
        vec!["cuckoo".into(), "4".into(), "65536".into(), "32".into()],
        vec!["quotient".into(), "18".into(), "13".into(), "0".into()],
        vec!["hll".into(), "18".into(), "0".into(), "0".into()],
        vec!["bloom".into(), "16000000".into(), "5".into(), "0".into()],
    ];
    for case in cases {
        let out_file = format!("/tmp/pdsmon-massif-{}-{}.out", std::process::id(), case.join("-"));
        let res = std::process::Command::new("valgrind")
            .arg("--tool=massif")
            .arg("--pages-as-heap=no")
            .arg(format!("--massif-out-file={}", out_file))
            .arg(&exe)
            .arg("mem")
            .args(&case)
            .output();
        let Ok(o) = res else {
            rep.inconclusive.push("valgrind could not be started".into());
            return;
        };
        let stdout = String::from_utf8_lossy(&o.stdout).to_string();
        let mon_peak: Option<f64> = stdout.lines().find(|l| l.starts_with("MONITOR")).and_then(|l| l.split("peak=").nth(1)).and_then(|s| s.trim().parse().ok());
        let massif = std::fs::read_to_string(&out_file).unwrap_or_default();
        let _ = std::fs::remove_file(&out_file);
        let massif_peak: Option<f64> = massif.lines().filter_map(|l| l.strip_prefix("mem_heap_B=")).filter_map(|s| s.parse::<f64>().ok()).fold(None, |a: Option<f64>, b| Some(a.map_or(b, |x| x.max(b))));
        rep.evaluations += 1;
        match (mon_peak, massif_peak) {
            (Some(mp), Some(vp)) => {
                let diff = (mp - vp).abs();
                rep.max("massif_vs_monitor_relative_difference", diff / vp.max(1.0));
                rep.count("massif_crosschecks", 1);
                if diff > 0.10 * vp + 65536.0 {
                    rep.violation("C11/massif-disagrees-with-monitor", format!("case {:?}: monitor peak {} vs massif peak {}", case, mp, vp), json!({"case": case}));
                }
            }
            _ => rep.inconclusive.push(format!("massif cross-check produced no numbers for {:?} (exit {:?})", case, o.status.code())),
        }
    }
}

pub fn run(ctx: &Ctx) -> Report {
    // 3 filter families + 6 sketch families, one thread each (measurements are thread-local)
    let mut rep = par_run(ctx, 9, |i, rep| {
        let t0 = std::time::Instant::now();
        if i < 3 {
            filters(ctx, i, rep)
        } else {
            sketches(ctx, i - 3, rep)
        }
        rep.count(&format!("wall_ms/family{}", i), t0.elapsed().as_millis() as u64);
    });
    if ctx.tier == Tier::Thorough {
        massif_crosscheck(&mut rep);
    }
    rep.sample(json!({"structure": "cuckoo(b=4,n=1024,l=2)", "ideal_bytes": 1024, "measured": "after construction, after 1e3/1e4/1e5 inserts+deletes, after 1000 failed inserts + 20 unions, after 100 clear/refill cycles"}));
    rep
}
