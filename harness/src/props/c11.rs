//! C11 — memory bounded by configuration (stub, filled in later)
pub fn mem_driver(_args: &[String]) -> i32 {
    0
}
