//! C02 — CountMinSketch never underestimates and never exceeds the stream total.
use crate::infra::hashers::CtlBuildHasher;
use crate::infra::rngs::FastRng;
use crate::infra::*;
use crate::props::common::pick_hasher;
use pdatastructs::countminsketch::CountMinSketch;
use pdatastructs::num_traits::{CheckedAdd, NumCast, One, ToPrimitive, Unsigned, Zero};
use serde_json::{json, Value};
use std::collections::BTreeMap;

pub const RULE: &str = "random histories of add / add_n (incl. weight 0 and large weights) / merge (with an independently built sketch) / clear on counter types u8,u16,u32,u64,usize and (w,d) incl. w != d, deep (d > 64) and large (w*d > 2^16) tables, hashers Mix/Sip/Collide/Constant/Identity/Layout; exact HashMap oracle over all touched keys plus never-added probes after every operation; add/add_n return value compared with query_point taken immediately afterwards; single-distinct-key streams must be exact; exceeding the counter maximum (by add_n and by merge) must panic as documented, never wrap; Extend equals a loop of add. non-trivial = history with >= 2 distinct keys and >= 1 merge or add_n; distinct = (type, config, op sequence) hashes";
pub const ASSUMPTIONS: &[&str] = &[
    "total weight is kept <= C::MAX because counter overflow panics are documented behaviour",
];

#[derive(Clone, Debug)]
enum Op {
    Add(u64),
    AddN(u64, u64),
    Merge(Vec<(u64, u64)>),
    Clear,
}

fn op_json(o: &Op) -> Value {
    match o {
        Op::Add(k) => json!({"add": k}),
        Op::AddN(k, n) => json!({"add_n": [k, n]}),
        Op::Merge(s) => json!({"merge_with": s}),
        Op::Clear => json!("clear"),
    }
}

fn run_type<C>(tname: &str, max: u128, r: &mut FastRng, rep: &mut Report)
where
    C: CheckedAdd + Clone + One + Ord + Unsigned + Zero + NumCast + ToPrimitive + std::fmt::Debug,
{
    let shape = r.below(20);
    let (w, d) = if shape < 9 {
        (1 + r.below(5) as usize, 1 + r.below(5) as usize)
    } else if shape < 18 {
        *r.pick(&[(7usize, 3usize), (3, 7), (272, 3), (10, 20), (1, 16), (16, 1), (2, 9), (9, 2)])
    } else {
        // deep and large tables (more than 64 rows, more than 2^16 counters, odd shapes)
        *r.pick(&[(3usize, 70usize), (2, 100), (1, 129), (5, 65), (4096, 20), (20_000, 5), (32_768, 3), (1000, 100), (65_537, 2), (70_001, 1)])
    };
    let bh: CtlBuildHasher = pick_hasher(r);
    let label = format!("cms<{}>(w={},d={},{})", tname, w, d, bh.name());
    rep.config(&label);
    let few = r.chance(0.3);
    let usz = 1 + r.below(if few { 3 } else { 40 }) as usize;
    let u: Vec<u64> = (0..usz).map(|_| r.next()).collect();
    let probes: Vec<u64> = (0..6).map(|_| r.next()).collect();
    for _ in 0..6 {
        let mut c: CountMinSketch<u64, C, CtlBuildHasher> = CountMinSketch::with_params_and_hasher(w, d, bh);
        let mut truth: BTreeMap<u64, u128> = BTreeMap::new();
        let mut total: u128 = 0;
        let mut hist: Vec<Op> = vec![];
        let n_ops = 1 + r.below(120) as usize;
        let mut saw_rich = false;
        let big = r.chance(0.3);
        let mut bad: Option<(String, String)> = None;
        for _ in 0..n_ops {
            beat();
            let room = max - total;
            let x = r.f64();
            let wt = |r: &mut FastRng, room: u128| -> u64 {
                if room == 0 || r.chance(0.08) {
                    0
                } else if big {
                    (r.below(((room / 4).max(1)).min(u64::MAX as u128) as u64) + 1).min(room as u64)
                } else {
                    (1 + r.below(20)).min(room.min(u64::MAX as u128) as u64)
                }
            };
            let op = if x < 0.02 {
                Op::Clear
            } else if x < 0.10 {
                let mut s = vec![];
                let mut left = room;
                for _ in 0..r.below(8) {
                    let n = wt(r, left);
                    left -= n as u128;
                    s.push((*r.pick(&u), n));
                }
                Op::Merge(s)
            } else if x < 0.5 {
                Op::AddN(*r.pick(&u), wt(r, room))
            } else if room >= 1 {
                Op::Add(*r.pick(&u))
            } else {
                Op::AddN(*r.pick(&u), 0)
            };
            hist.push(op.clone());
            rep.evaluations += 1;
            let res = guarded(|| -> Option<(String, String)> {
                match &op {
                    Op::Add(k) => {
                        let ret = c.add(k).to_u128().unwrap();
                        *truth.entry(*k).or_insert(0) += 1;
                        total += 1;
                        let q = c.query_point(k).to_u128().unwrap();
                        if ret != q {
                            return Some(("C02/add-return-vs-query".into(), format!("add({}) returned {} but query_point immediately afterwards is {}", k, ret, q)));
                        }
                    }
                    Op::AddN(k, n) => {
                        let nn: C = NumCast::from(*n).unwrap();
                        let ret = c.add_n(k, &nn).to_u128().unwrap();
                        *truth.entry(*k).or_insert(0) += *n as u128;
                        total += *n as u128;
                        let q = c.query_point(k).to_u128().unwrap();
                        if ret != q {
                            return Some(("C02/add_n-return-vs-query".into(), format!("add_n({}, {}) returned {} but query_point immediately afterwards is {}", k, n, ret, q)));
                        }
                    }
                    Op::Merge(s) => {
                        let mut o: CountMinSketch<u64, C, CtlBuildHasher> = CountMinSketch::with_params_and_hasher(w, d, bh);
                        for (k, n) in s {
                            let nn: C = NumCast::from(*n).unwrap();
                            o.add_n(k, &nn);
                        }
                        c.merge(&o);
                        for (k, n) in s {
                            *truth.entry(*k).or_insert(0) += *n as u128;
                            total += *n as u128;
                        }
                    }
                    Op::Clear => {
                        c.clear();
                        truth.clear();
                        total = 0;
                    }
                }
                // oracle over all touched keys + probes
                for (k, t) in &truth {
                    let q = c.query_point(k).to_u128().unwrap();
                    if q < *t {
                        return Some(("C02/underestimate".into(), format!("query_point({}) = {} < true weight {}", k, q, t)));
                    }
                    if q > total {
                        return Some(("C02/exceeds-total".into(), format!("query_point({}) = {} > stream total {}", k, q, total)));
                    }
                }
                for k in &probes {
                    let q = c.query_point(k).to_u128().unwrap();
                    if q > total {
                        return Some(("C02/exceeds-total".into(), format!("query_point({}) = {} > stream total {} (never-added key)", k, q, total)));
                    }
                }
                let distinct: Vec<(&u64, &u128)> = truth.iter().filter(|(_, t)| **t > 0).collect();
                if distinct.len() == 1 {
                    let (k, t) = distinct[0];
                    let q = c.query_point(k).to_u128().unwrap();
                    if q != *t {
                        return Some(("C02/single-key-not-exact".into(), format!("stream with the single distinct key {} of weight {} is counted as {}", k, t, q)));
                    }
                }
                if c.is_empty() != (total == 0) {
                    // not part of C02's statement; recorded only
                }
                None
            });
            match res {
                Ok(None) => {}
                Ok(Some(b)) => {
                    bad = Some(b);
                    break;
                }
                Err(msg) => {
                    bad = Some((format!("C02/panic/{}", panic_class(&msg)), format!("panicked: {}", msg)));
                    break;
                }
            }
            if truth.len() >= 2 && matches!(op, Op::Merge(_) | Op::AddN(..)) {
                saw_rich = true;
            }
        }
        if let Some((sig, what)) = bad {
            rep.violation(
                format!("{}/{}", sig, if w == d { "w=d" } else { "w!=d" }),
                format!("{}: after {} ops: {}", label, hist.len(), what),
                json!({"type": tname, "w": w, "d": d, "hasher": bh, "history": hist.iter().map(op_json).collect::<Vec<_>>()}),
            );
            return;
        }
        rep.count("histories", 1);
        if saw_rich {
            let mut h = CaseHash::new(&label);
            hist.iter().for_each(|o| h.push_str(&format!("{:?}", o)));
            rep.nontrivial(h.0);
            if rep.want_sample() && hist.len() <= 8 {
                rep.sample(json!({"config": label, "history": hist.iter().map(op_json).collect::<Vec<_>>()}));
            }
        }
    }
}

/// Counter overflow is documented to panic. A sketch that keeps counting past the maximum of its
/// counter type without panicking must still satisfy the oracle — it cannot, so that is a violation
/// (silent wrap-around = underestimate).
fn overflow_behaviour(rep: &mut Report) {
    macro_rules! case {
        ($t:ty, $name:expr) => {{
            for via_merge in [false, true] {
                rep.evaluations += 1;
                let max = <$t>::MAX as u128;
                let res = guarded(|| -> Option<(String, String)> {
                    let mut c: CountMinSketch<u64, $t, CtlBuildHasher> = CountMinSketch::with_params_and_hasher(4, 3, CtlBuildHasher::mix(9));
                    let big: $t = <$t>::MAX - 3;
                    c.add_n(&1u64, &big);
                    let r = if via_merge {
                        let mut o: CountMinSketch<u64, $t, CtlBuildHasher> = CountMinSketch::with_params_and_hasher(4, 3, CtlBuildHasher::mix(9));
                        o.add_n(&1u64, &10);
                        guarded(|| c.merge(&o)).map(|_| ())
                    } else {
                        guarded(|| {
                            c.add_n(&1u64, &10);
                        })
                    };
                    match r {
                        Err(_) => None, // documented panic
                        Ok(()) => {
                            let q = c.query_point(&1u64) as u128;
                            let truth = max - 3 + 10;
                            if q < truth {
                                Some(("C02/underestimate/overflow-wraps-silently".into(), format!("cms<{}>: weights {} + 10 for one key exceed the counter maximum; no panic, and query_point = {} < true weight {}", $name, max - 3, q, truth)))
                            } else {
                                None
                            }
                        }
                    }
                });
                match res {
                    Ok(None) => rep.count("overflow_cases", 1),
                    Ok(Some((sig, what))) => rep.violation(sig, what, json!({"type": $name, "via_merge": via_merge})),
                    Err(msg) => rep.violation(format!("C02/panic/{}", panic_class(&msg)), msg, json!({"type": $name})),
                }
            }
        }};
    }
    case!(u8, "u8");
    case!(u16, "u16");
    case!(u32, "u32");
    case!(u64, "u64");
    case!(usize, "usize");
    // a merge that hits the documented overflow panic: afterwards the sketch must still satisfy the
    // bounds for the stream it has really received (a half-merged table breaks "at most the total")
    {
        let mut r = FastRng::new(0xC02_C02);
        for (w, d) in [(2usize, 1usize), (3, 1), (2, 2), (4, 2), (3, 3), (5, 1)] {
            for trial in 0..300u64 {
                rep.evaluations += 1;
                let bh = CtlBuildHasher::mix(31 + trial);
                // self: some cells nearly empty, some moderately filled; other: a few heavy keys. A
                // half-merged table then shows a nearly empty cell of self that jumped far above the
                // total weight self has received.
                let sw: Vec<u8> = (0..6).map(|_| if r.chance(0.5) { r.below(4) as u8 } else { 30 + r.below(40) as u8 }).collect();
                let ow: Vec<u8> = (0..6).map(|_| if r.chance(0.4) { 200 + r.below(56) as u8 } else { r.below(3) as u8 }).collect();
                if sw.iter().map(|x| *x as u32).sum::<u32>() > 255 {
                    continue; // self alone must be a legal sketch for any key placement
                }
                let res = guarded(|| -> Option<(String, String)> {
                    let mut c: CountMinSketch<u64, u8, CtlBuildHasher> = CountMinSketch::with_params_and_hasher(w, d, bh);
                    let mut o: CountMinSketch<u64, u8, CtlBuildHasher> = CountMinSketch::with_params_and_hasher(w, d, bh);
                    let mut total: u128 = 0;
                    for k in 0..6u64 {
                        c.add_n(&k, &sw[k as usize]);
                        total += sw[k as usize] as u128;
                    }
                    // `other` alone must be legal too (its own cells may not overflow)
                    if guarded(|| {
                        for k in 0..6u64 {
                            o.add_n(&k, &ow[k as usize]);
                        }
                    })
                    .is_err()
                    {
                        return None;
                    }
                    if guarded(|| c.merge(&o)).is_ok() {
                        return None; // fitted
                    }
                    for k in 0..6u64 {
                        let q = c.query_point(&k) as u128;
                        let t = sw[k as usize] as u128;
                        if q < t {
                            return Some(("C02/underestimate/after-panicking-merge".into(), format!("after a merge that panicked on counter overflow query_point({}) = {} < {} added before", k, q, t)));
                        }
                        if q > total {
                            return Some(("C02/exceeds-total/after-panicking-merge".into(), format!("after a merge that panicked on counter overflow query_point({}) = {} exceeds the total weight {} the sketch has received (half-merged table)", k, q, total)));
                        }
                    }
                    None
                });
                match res {
                    Ok(None) => rep.count("panicking_merge_cases", 1),
                    Ok(Some((sig, what))) => {
                        rep.violation(sig, format!("cms<u8>(w={},d={}): {}", w, d, what), json!({"w": w, "d": d, "self_weights": sw, "other_weights": ow, "hasher": bh}));
                        break;
                    }
                    Err(msg) => rep.violation(format!("C02/panic/{}", panic_class(&msg)), msg, json!({"w": w, "d": d})),
                }
            }
        }
    }
    // Extend is a loop of add()
    rep.evaluations += 1;
    let res = guarded(|| -> Option<(String, String)> {
        let keys: Vec<u64> = (0..500u64).map(|i| i * i % 97).collect();
        let mut a: CountMinSketch<u64> = CountMinSketch::with_params(64, 4);
        let mut b: CountMinSketch<u64> = CountMinSketch::with_params(64, 4);
        a.extend(keys.iter().copied());
        for k in &keys {
            b.add(k);
        }
        for k in 0..100u64 {
            if a.query_point(&k) != b.query_point(&k) {
                return Some(("C02/extend-differs-from-adds".into(), format!("after extend() of 500 keys query_point({}) = {} but {} after the same keys through add()", k, a.query_point(&k), b.query_point(&k))));
            }
        }
        None
    });
    match res {
        Ok(None) => {}
        Ok(Some((sig, what))) => rep.violation(sig, what, json!({})),
        Err(msg) => rep.violation(format!("C02/panic/{}", panic_class(&msg)), msg, json!({})),
    }
}

pub fn run(ctx: &Ctx) -> Report {
    let n = match (ctx.tier, ctx.is_dbg()) {
        (Tier::Quick, false) => 20_000,
        (Tier::Quick, true) => 2000,
        (Tier::Thorough, false) => 600_000,
        (Tier::Thorough, true) => 20_000,
    };
    par_run(ctx, n, |i, rep| {
        if i == 0 {
            overflow_behaviour(rep);
        }
        let mut r = FastRng::new(ctx.sub_seed(&[i as u64]));
        match i % 5 {
            0 => run_type::<u8>("u8", u8::MAX as u128, &mut r, rep),
            1 => run_type::<u16>("u16", u16::MAX as u128, &mut r, rep),
            2 => run_type::<u32>("u32", u32::MAX as u128, &mut r, rep),
            3 => run_type::<u64>("u64", u64::MAX as u128, &mut r, rep),
            _ => run_type::<usize>("usize", usize::MAX as u128, &mut r, rep),
        }
    })
}
