//! C06 — merge/union is equivalent to having processed both streams.
use crate::infra::flt::*;
use crate::infra::hashers::{CtlBuildHasher, HMode};
use crate::infra::rngs::FastRng;
use crate::infra::*;
use crate::props::c12::{diff, observe, Obs};
use crate::props::common::*;
use pdatastructs::countminsketch::CountMinSketch;
use pdatastructs::hyperloglog::HyperLogLog;
use serde_json::{json, Value};

pub const RULE: &str = "pairs/triples of streams (overlapping, disjoint, empty, near capacity) per structure and configuration; after a.op(&b): a is compared observable-by-observable with a reference that received stream(A) then stream(B), b with its own pre-state; commutativity/associativity (Bloom, CMS, HLL, QF) and idempotence (Bloom, HLL, QF) on triples. Quotient filter: Ok iff the reference construction over the successfully inserted elements succeeds. Cuckoo: compared (sweep, len, per-key deletable counts) when union and reference construction both succeed; in half of the cuckoo cases the operands are built with inserts followed by deletes (holes inside buckets) and the reference from the net content. Quotient filter remainders up to 58 bits. non-trivial = both operands non-empty; distinct = distinct (config, streams) hashes";
pub const ASSUMPTIONS: &[&str] = &[
    "CMS workloads keep total weight below the counter maximum (overflow panics are documented behaviour)",
    "cuckoo slot layout may differ between merged and reference filter; only multiset observables are compared",
];

fn stream(r: &mut FastRng, universe: &[u64], max_len: usize) -> Vec<u64> {
    let n = match r.below(8) {
        0 => 0,
        1 => 1,
        _ => r.below(max_len as u64 + 1) as usize,
    };
    (0..n).map(|_| *r.pick(universe)).collect()
}

/// Build a filter from a stream. For filters with delete, every third successfully inserted
/// element whose index is divisible by 3 is deleted again after the inserts (leaving holes inside
/// buckets); the returned vector holds the net content.
fn build<F: Flt>(make: &dyn Fn() -> F, s: &[u64]) -> (F, Vec<u64>, bool) {
    let mut f = make();
    let mut ok = vec![];
    let mut all_ok = true;
    for k in s {
        if f.insert(*k).is_ok() {
            ok.push(*k);
        } else {
            all_ok = false;
        }
    }
    if f.has_delete() && WITH_HOLES.with(|h| h.get()) {
        let mut kept = vec![];
        for (j, k) in ok.iter().enumerate() {
            if j % 3 == 0 && f.delete(*k) == Some(true) {
                continue;
            }
            kept.push(*k);
        }
        ok = kept;
    }
    (f, ok, all_ok)
}

/// inserts only (used for the sequential reference over the operands' net content)
fn build_plain<F: Flt>(make: &dyn Fn() -> F, s: &[u64]) -> (F, Vec<u64>, bool) {
    let holes = WITH_HOLES.with(|h| h.replace(false));
    let r = build(make, s);
    WITH_HOLES.with(|h| h.set(holes));
    r
}

thread_local! {
    /// cuckoo cases: delete part of the inserted elements again while building operands
    static WITH_HOLES: std::cell::Cell<bool> = const { std::cell::Cell::new(false) };
}

fn case_hash(label: &str, streams: &[&[u64]]) -> u64 {
    let mut h = CaseHash::new(label);
    for s in streams {
        h.push(0xABCD ^ s.len() as u64);
        s.iter().for_each(|k| h.push(*k));
    }
    h.0
}

#[allow(clippy::too_many_arguments)]
fn filter_case<F: Flt>(
    kind: &str,
    label: &str,
    cfg_json: Value,
    make: &dyn Fn() -> F,
    universe: &[u64],
    a_s: &[u64],
    b_s: &[u64],
    c_s: &[u64],
    set_like: bool,
    comm_assoc: bool,
    capacity_rule: bool,
    rep: &mut Report,
) {
    let wit = |what: &str| json!({"config": cfg_json, "stream_a": a_s, "stream_b": b_s, "stream_c": c_s, "change": what});
    let r = guarded(|| -> Option<(String, String)> {
        let (mut a, a_ok, _) = build(make, a_s);
        let (b, b_ok, _) = build(make, b_s);
        let pre_b = observe(&b, universe);
        let res = a.union(&b);
        let post_b = observe(&b, universe);
        if let Some((s, w)) = diff(&pre_b, &post_b, universe) {
            return Some((format!("C06/{}/other-modified/{}", kind, s), w));
        }
        // reference: successfully inserted elements of A then of B
        let ab: Vec<u64> = a_ok.iter().chain(b_ok.iter()).copied().collect();
        let (rf, _, ref_all_ok) = build_plain(make, &ab);
        if capacity_rule && res.is_ok() != ref_all_ok {
            return Some((
                format!("C06/{}/ok-iff-fits/union-{}-reference-{}", kind, if res.is_ok() { "ok" } else { "err" }, if ref_all_ok { "fits" } else { "overflows" }),
                format!("union returned {:?} but inserting the same elements one by one {}", res, if ref_all_ok { "succeeds" } else { "hits Full" }),
            ));
        }
        if res.is_err() || !ref_all_ok {
            rep.count("pairs_not_comparable(full)", 1);
            return None;
        }
        rep.count("pairs_compared", 1);
        let oa = observe(&a, universe);
        let or = observe(&rf, universe);
        if let Some((s, w)) = diff(&or, &oa, universe) {
            return Some((format!("C06/{}/union-vs-sequential/{}", kind, s), format!("reference(A then B) vs a.union(b): {}", w)));
        }
        if !a_s.is_empty() && !b_s.is_empty() {
            rep.nontrivial(case_hash(label, &[a_s, b_s]));
        }
        // laws
        if comm_assoc {
            let (mut b2, _, _) = build(make, b_s);
            let (a2, _, _) = build(make, a_s);
            if b2.union(&a2).is_ok() {
                let ob = observe(&b2, universe);
                if let Some((s, w)) = diff(&oa, &ob, universe) {
                    return Some((format!("C06/{}/not-commutative/{}", kind, s), format!("a.union(b) vs b.union(a): {}", w)));
                }
                rep.count("commutativity_checked", 1);
            }
            let (c, _, _) = build(make, c_s);
            // (a u b) u c  vs  a u (b u c)
            let mut left = a.try_clone().unwrap();
            let (mut bc, _, _) = build(make, b_s);
            let (mut a3, _, _) = build(make, a_s);
            if left.union(&c).is_ok() && bc.union(&c).is_ok() && a3.union(&bc).is_ok() {
                let ol = observe(&left, universe);
                let orr = observe(&a3, universe);
                if let Some((s, w)) = diff(&ol, &orr, universe) {
                    return Some((format!("C06/{}/not-associative/{}", kind, s), format!("(a u b) u c vs a u (b u c): {}", w)));
                }
                rep.count("associativity_checked", 1);
            }
        }
        if set_like {
            // a u b u b == a u b ; a u a == a
            let mut twice = a.try_clone().unwrap();
            if twice.union(&b).is_ok() {
                let ot = observe(&twice, universe);
                if let Some((s, w)) = diff(&oa, &ot, universe) {
                    return Some((format!("C06/{}/not-idempotent/{}", kind, s), format!("a u b u b vs a u b: {}", w)));
                }
            } else {
                return Some((format!("C06/{}/not-idempotent/err", kind), "merging b a second time failed".into()));
            }
            let (mut a4, _, _) = build(make, a_s);
            let a5 = a4.try_clone().unwrap();
            let o_before = observe(&a4, universe);
            if a4.union(&a5).is_ok() {
                let o_after = observe(&a4, universe);
                if let Some((s, w)) = diff(&o_before, &o_after, universe) {
                    return Some((format!("C06/{}/self-union-changes/{}", kind, s), format!("a u a vs a: {}", w)));
                }
            } else {
                return Some((format!("C06/{}/self-union-changes/err", kind), "a.union(a) failed".into()));
            }
            rep.count("idempotence_checked", 1);
        }
        None
    });
    match r {
        Ok(None) => {}
        Ok(Some((sig, what))) => rep.violation(sig, format!("{}: {}", label, what), wit(&what)),
        Err(msg) => rep.violation(
            format!("C06/{}/panic/{}", kind, panic_class(&msg)),
            format!("{}: panicked: {}", label, msg),
            wit(&msg),
        ),
    }
}

fn bloom_item(r: &mut FastRng, rep: &mut Report) {
    let cfg = pick_bloom(r);
    let label = cfg.label();
    rep.config(&label);
    let usz = 8 + r.below(150) as usize;
    let u: Vec<u64> = (0..usz).map(|_| r.next()).collect();
    for _ in 0..8 {
        let ml = (cfg.m / cfg.k.max(1)).clamp(2, 60);
        let (a, b, c) = (stream(r, &u, ml), stream(r, &u, ml), stream(r, &u, ml));
        rep.evaluations += 1;
        let cf = cfg.clone();
        filter_case("bloom", &label, json!(cfg), &|| cf.make(), &u, &a, &b, &c, true, true, false, rep);
        if rep.want_sample() && a.len() + b.len() <= 6 && !a.is_empty() && !b.is_empty() {
            rep.sample(json!({"config": label, "stream_a": a, "stream_b": b, "stream_c": c}));
        }
    }
}

fn qf_item(r: &mut FastRng, i: usize, rep: &mut Report) {
    let mut cfg = pick_qf(r, 6);
    // mostly narrow remainders, but also 33..58 bits (copies narrowed to 32 bits must show)
    cfg.r = if i % 5 == 4 { *r.pick(&[33usize, 40, 48, 58]) } else { cfg.r.min(16) };
    cfg.bh = match i % 3 {
        0 | 1 => CtlBuildHasher::identity(),
        _ => pick_hasher(r),
    };
    let label = cfg.label();
    rep.config(&label);
    let cap = cfg.slots();
    let usz = (cap * 2).clamp(8, 160);
    let u = qf_universe(&cfg, r, usz);
    if u.len() < 4 {
        return;
    }
    for h in 0..8 {
        // near-capacity emphasis: |A| + |B| around cap
        let ml = if h % 2 == 0 { cap } else { cap / 2 + 1 };
        let (a, b, c) = (stream(r, &u, ml), stream(r, &u, ml), stream(r, &u, ml / 2 + 1));
        rep.evaluations += 1;
        let cf = cfg.clone();
        filter_case("qf", &label, json!(cfg), &|| cf.make(), &u, &a, &b, &c, true, true, true, rep);
        if rep.want_sample() && a.len() + b.len() <= 6 && !a.is_empty() && !b.is_empty() {
            rep.sample(json!({"config": label, "stream_a": a, "stream_b": b, "stream_c": c}));
        }
    }
    // a full table as `other`
    if cfg.bh.mode == HMode::Identity && cap <= 64 {
        let full: Vec<u64> = (0..cap as u64).map(|q| cfg.key(q % (1 << cfg.q), (r.next() & ((1u64 << cfg.r.min(63)) - 1)))).collect();
        let a = stream(r, &full, cap);
        rep.evaluations += 1;
        let cf = cfg.clone();
        let mut uu = u.clone();
        uu.extend(full.iter());
        uu.sort_unstable();
        uu.dedup();
        filter_case("qf", &label, json!(cfg), &|| cf.make(), &uu, &a, &full, &[], true, true, true, rep);
    }
}

fn cuckoo_item(r: &mut FastRng, i: usize, rep: &mut Report) {
    let mut cfg = crate::props::c14::pick_cfg(r, i);
    while cfg.slots() > 128 {
        cfg.n_buckets /= 2;
    }
    cfg.rng = pick_rng(r);
    let label = cfg.label();
    rep.config(&label);
    let cap = cfg.slots();
    let usz = (cap + 8).clamp(8, 128);
    let u = cuckoo_universe(&cfg, r, usz);
    if u.len() < 4 {
        return;
    }
    for _ in 0..6 {
        let kb = match r.below(6) {
            0 => Some(0),
            1 => Some(2),
            2 => Some(20),
            _ => None,
        };
        pdatastructs::verif::set_kick_budget(kb);
        WITH_HOLES.with(|h| h.set(r.chance(0.5)));
        let ml = (cap * 2 / 3).max(2);
        let (a, b) = (stream(r, &u, ml), stream(r, &u, ml));
        rep.evaluations += 1;
        let cf = cfg.clone();
        filter_case("cuckoo", &label, json!({"cfg": cfg, "kick_budget": kb}), &|| cf.make(), &u, &a, &b, &[], false, false, false, rep);
        pdatastructs::verif::set_kick_budget(None);
        WITH_HOLES.with(|h| h.set(false));
    }
}

// ---------------------------------------------------------------------------------------------
// CMS

type Cms = CountMinSketch<u64, u32, CtlBuildHasher>;

fn cms_build(w: usize, d: usize, bh: CtlBuildHasher, s: &[(u64, u32)]) -> Cms {
    let mut c = Cms::with_params_and_hasher(w, d, bh);
    for (k, n) in s {
        c.add_n(k, n);
    }
    c
}

fn cms_obs(c: &Cms, u: &[u64]) -> (bool, Vec<u32>) {
    (c.is_empty(), u.iter().map(|k| c.query_point(k)).collect())
}

fn cms_item(r: &mut FastRng, rep: &mut Report) {
    let (w, d) = *r.pick(&[(1usize, 1usize), (1, 3), (2, 2), (3, 2), (2, 5), (7, 3), (3, 7), (16, 1), (1, 16), (272, 3), (10, 20)]);
    let bh = pick_hasher(r);
    let label = format!("cms(w={},d={},{})", w, d, bh.name());
    rep.config(&label);
    let usz = 4 + r.below(60) as usize;
    let u: Vec<u64> = (0..usz).map(|_| r.next()).collect();
    for _ in 0..8 {
        let mk = |r: &mut FastRng| -> Vec<(u64, u32)> {
            let n = match r.below(6) {
                0 => 0,
                _ => r.below(40) as usize,
            };
            (0..n).map(|_| (*r.pick(&u), if r.chance(0.1) { 0 } else { 1 + r.below(1000) as u32 })).collect()
        };
        let (sa, sb, sc) = (mk(r), mk(r), mk(r));
        rep.evaluations += 1;
        let res = guarded(|| -> Option<(String, String)> {
            let mut a = cms_build(w, d, bh, &sa);
            let b = cms_build(w, d, bh, &sb);
            let pre_b = cms_obs(&b, &u);
            a.merge(&b);
            if cms_obs(&b, &u) != pre_b {
                return Some(("C06/cms/other-modified".into(), "merge changed `other`".into()));
            }
            let ab: Vec<(u64, u32)> = sa.iter().chain(sb.iter()).copied().collect();
            let rf = cms_build(w, d, bh, &ab);
            let (oa, or) = (cms_obs(&a, &u), cms_obs(&rf, &u));
            if oa != or {
                let i = (0..u.len()).find(|i| oa.1[*i] != or.1[*i]);
                return Some(("C06/cms/merge-vs-sequential".into(), format!("query_point differs for key {:?}: merged {:?} vs sequential {:?} (is_empty {} vs {})", i.map(|i| u[i]), i.map(|i| oa.1[i]), i.map(|i| or.1[i]), oa.0, or.0)));
            }
            let mut b2 = cms_build(w, d, bh, &sb);
            b2.merge(&cms_build(w, d, bh, &sa));
            if cms_obs(&b2, &u) != oa {
                return Some(("C06/cms/not-commutative".into(), "a.merge(b) vs b.merge(a) differ".into()));
            }
            let c = cms_build(w, d, bh, &sc);
            let mut left = a.clone();
            left.merge(&c);
            let mut bc = cms_build(w, d, bh, &sb);
            bc.merge(&c);
            let mut right = cms_build(w, d, bh, &sa);
            right.merge(&bc);
            if cms_obs(&left, &u) != cms_obs(&right, &u) {
                return Some(("C06/cms/not-associative".into(), "(a+b)+c vs a+(b+c) differ".into()));
            }
            // merge then continue adding
            let mut cont = a.clone();
            let mut rf2 = rf.clone();
            for (k, n) in &sc {
                let x = cont.add_n(k, n);
                let y = rf2.add_n(k, n);
                if x != y {
                    return Some(("C06/cms/continuation-after-merge".into(), format!("add_n after merge returned {} vs {} on the sequential reference", x, y)));
                }
            }
            None
        });
        match res {
            Ok(None) => {
                if !sa.is_empty() && !sb.is_empty() {
                    let mut h = CaseHash::new(&label);
                    sa.iter().chain(sb.iter()).for_each(|(k, n)| {
                        h.push(*k);
                        h.push(*n as u64)
                    });
                    rep.nontrivial(h.0);
                    rep.count("pairs_compared", 1);
                }
            }
            Ok(Some((sig, what))) => rep.violation(sig, format!("{}: {}", label, what), json!({"w": w, "d": d, "hasher": bh, "stream_a": sa, "stream_b": sb, "stream_c": sc})),
            Err(msg) => rep.violation(format!("C06/cms/panic/{}", panic_class(&msg)), format!("{}: panicked: {}", label, msg), json!({"w": w, "d": d, "hasher": bh, "stream_a": sa, "stream_b": sb})),
        }
    }
}

// ---------------------------------------------------------------------------------------------
// HLL

type Hll = HyperLogLog<u64, CtlBuildHasher>;

fn hll_build(b: usize, bh: CtlBuildHasher, s: &[u64]) -> Hll {
    let mut h = Hll::with_hash(b, bh);
    for k in s {
        h.add(k);
    }
    h
}

fn hll_item(r: &mut FastRng, rep: &mut Report) {
    let b = 4 + r.below(15) as usize;
    let bh = match r.below(4) {
        0 => CtlBuildHasher::identity(),
        1 => CtlBuildHasher::new(HMode::Sip, r.next()),
        _ => CtlBuildHasher::new(HMode::Mix, r.next()),
    };
    let label = format!("hll(b={},{})", b, bh.name());
    rep.config(&label);
    let m = 1usize << b;
    for _ in 0..4 {
        let mk = |r: &mut FastRng| -> Vec<u64> {
            let n = match r.below(6) {
                0 => 0,
                1 => r.below(8) as usize,
                _ => r.below((3 * m).min(20_000) as u64) as usize,
            };
            let base = r.next();
            let overlap = r.chance(0.5);
            if bh.mode == HMode::Identity && r.chance(0.5) {
                // boundary hashes: registers at and next to the maximal rank (upper part all zero /
                // only its lowest bit set), shared between the operands in different combinations
                let regs = 1 + r.below(8);
                return (0..n.min(64))
                    .map(|_| {
                        let j = r.below(regs);
                        match r.below(4) {
                            0 => j,
                            1 => (1u64 << b) | j,
                            2 => (1u64 << (b + 1)) | j,
                            _ => r.next(),
                        }
                    })
                    .collect();
            }
            (0..n).map(|j| if overlap { base.wrapping_add(r.below(n as u64 + 1)) } else if bh.mode == HMode::Identity { r.next() } else { base.wrapping_add(j as u64) }).collect()
        };
        let (sa, sb, sc) = (mk(r), mk(r), mk(r));
        rep.evaluations += 1;
        let res = guarded(|| -> Option<(String, String)> {
            let mut a = hll_build(b, bh, &sa);
            let bb = hll_build(b, bh, &sb);
            let pre: Vec<u8> = bb.registers().to_vec();
            a.merge(&bb);
            if bb.registers() != pre.as_slice() {
                return Some(("C06/hll/other-modified".into(), "merge changed `other`".into()));
            }
            let ab: Vec<u64> = sa.iter().chain(sb.iter()).copied().collect();
            let rf = hll_build(b, bh, &ab);
            if a.registers() != rf.registers() || a != rf || a.count() != rf.count() || a.is_empty() != rf.is_empty() {
                let j = (0..m).find(|j| a.registers()[*j] != rf.registers()[*j]);
                return Some(("C06/hll/merge-vs-sequential".into(), format!("registers/count differ (first differing register {:?}; count {} vs {})", j, a.count(), rf.count())));
            }
            let mut b2 = hll_build(b, bh, &sb);
            b2.merge(&hll_build(b, bh, &sa));
            if b2 != a {
                return Some(("C06/hll/not-commutative".into(), "a.merge(b) != b.merge(a)".into()));
            }
            let c = hll_build(b, bh, &sc);
            let mut left = a.clone();
            left.merge(&c);
            let mut bc = hll_build(b, bh, &sb);
            bc.merge(&c);
            let mut right = hll_build(b, bh, &sa);
            right.merge(&bc);
            if left != right {
                return Some(("C06/hll/not-associative".into(), "(a+b)+c != a+(b+c)".into()));
            }
            let mut twice = a.clone();
            twice.merge(&bb);
            if twice != a {
                return Some(("C06/hll/not-idempotent".into(), "a+b+b != a+b".into()));
            }
            let mut selfm = hll_build(b, bh, &sa);
            let copy = selfm.clone();
            selfm.merge(&copy);
            if selfm != copy {
                return Some(("C06/hll/self-merge-changes".into(), "a+a != a".into()));
            }
            None
        });
        match res {
            Ok(None) => {
                if !sa.is_empty() && !sb.is_empty() {
                    let mut h = CaseHash::new(&label);
                    sa.iter().take(50).chain(sb.iter().take(50)).for_each(|k| h.push(*k));
                    h.push(sa.len() as u64);
                    h.push(sb.len() as u64);
                    rep.nontrivial(h.0);
                    rep.count("pairs_compared", 1);
                }
            }
            Ok(Some((sig, what))) => rep.violation(sig, format!("{}: {}", label, what), json!({"b": b, "hasher": bh, "len_a": sa.len(), "len_b": sb.len(), "stream_a_head": sa.iter().take(30).collect::<Vec<_>>(), "stream_b_head": sb.iter().take(30).collect::<Vec<_>>()})),
            Err(msg) => rep.violation(format!("C06/hll/panic/{}", panic_class(&msg)), format!("{}: panicked: {}", label, msg), json!({"b": b, "hasher": bh})),
        }
    }
}

pub fn run(ctx: &Ctx) -> Report {
    let n = match (ctx.tier, ctx.is_dbg()) {
        (Tier::Quick, false) => 60_000,
        (Tier::Quick, true) => 4000,
        (Tier::Thorough, false) => 1_500_000,
        (Tier::Thorough, true) => 60_000,
    };
    let mut rep = par_run(ctx, n, |i, rep| {
        let mut r = FastRng::new(ctx.sub_seed(&[i as u64]));
        match i % 8 {
            0 => bloom_item(&mut r, rep),
            1 | 2 | 3 => qf_item(&mut r, i, rep),
            4 | 5 => cuckoo_item(&mut r, i, rep),
            6 => cms_item(&mut r, rep),
            _ => hll_item(&mut r, rep),
        }
    });
    rep.require_events(&["QfUnionCluster", "QfUnionWrappedCluster", "CuckooUnionTransferred", "CuckooKick"]);
    if rep.event("QfUnionRunsInClusterMax") < 3 {
        rep.inconclusive.push("no quotient-filter union over a cluster with >= 3 runs observed".into());
    }
    let _: Option<Obs> = None;
    rep
}
