//! C07 — filters built from accuracy targets meet their false-positive rate.
use crate::infra::hashers::{CtlBuildHasher, HMode};
use crate::infra::rngs::{CtlRng, FastRng};
use crate::infra::stats;
use crate::infra::*;
use pdatastructs::filters::bloomfilter::BloomFilter;
use pdatastructs::filters::cuckoofilter::CuckooFilter;
use pdatastructs::filters::quotientfilter::QuotientFilter;
use pdatastructs::filters::Filter;
use serde_json::json;
use std::sync::Mutex;

pub const RULE: &str = "(a) usability over the (n,p) plane n in {1,2,3,10,50,1e3,1e5} x p in {1e-9,1e-6,1e-3,0.02,0.1,0.3,0.5,0.51,0.75,0.9,0.999} for BloomFilter::with_properties and CuckooFilter::with_properties_4/_8 (default and harness hashers): k>=1, m>=1, n distinct inserts (cuckoo: no Full), query/len/is_empty/union/clear do not panic - also with debug assertions on; (b) false-positive frequencies over independent Mix/SipHash seeds and disjoint probe sets with the upper-bounded-rate rule (violated iff mean - 5*SE > bound in two independent stages): Bloom <= 1.3p for n >= 50, cuckoo <= p (incl. p = 1e-9..1e-12, fingerprints of 31..44 bits), quotient filter holding m elements <= m*2^-(q+r) (incl. q+r = 50..64); (c) Bloom len() within max(5*sigma_est+2, 0.05n) of the number of distinct inserts while at most half the bits are set; on every fourth seed a third of the elements arrives through union(), on another fourth the filter is reused after n other inserts and clear(). non-trivial = (cell, seed) execution with >= 1 probe answered; distinct = (cell, seed) pairs + usability configurations";
pub const ASSUMPTIONS: &[&str] = &[
    "cuckoo usability is scoped to p >= 2*bucketsize*2^-64, below which no 64-bit fingerprint can exist",
    "probe keys are disjoint from inserted keys by construction (different key ranges before hashing)",
    "sigma_est = sqrt(m*(e^t - 1 - t))/k with t = k*n/m (delta method on the occupancy estimator)",
];

type B = BloomFilter<u64, CtlBuildHasher>;
type C = CuckooFilter<u64, CtlRng, CtlBuildHasher>;

const NS: [usize; 7] = [1, 2, 3, 10, 50, 1000, 100_000];
const PS: [f64; 11] = [1e-9, 1e-6, 1e-3, 0.02, 0.1, 0.3, 0.5, 0.51, 0.75, 0.9, 0.999];

fn usability(ctx: &Ctx, rep: &mut Report) {
    let mut r = FastRng::new(ctx.sub_seed(&[0xA]));
    for &n in &NS {
        for &p in &PS {
            // keep the dbg build light
            if ctx.is_dbg() && n > 1000 {
                continue;
            }
            let inserts = n.min(ctx.tier.pick(20_000, 100_000));
            let keys: Vec<u64> = (0..inserts as u64).map(|i| i.wrapping_mul(0x9E37_79B9_7F4A_7C15) ^ 0x55).collect();
            // ---- Bloom, default hasher and harness hasher
            for which in 0..2 {
                rep.evaluations += 1;
                let label = format!("bloom.with_properties(n={},p={}){}", n, p, if which == 0 { "" } else { "/mix" });
                let wit = json!({"filter": "bloom", "n": n, "p": p, "hasher": if which == 0 { "default" } else { "mix" }, "profile": ctx.profile});
                let res = guarded(|| -> Option<(String, String)> {
                    macro_rules! exercise {
                        ($f:expr, $g:expr) => {{
                            let mut f = $f;
                            if f.k() < 1 {
                                return Some(("C07/usability/bloom/k=0".into(), format!("k() = 0 (every query would be true, len() = 0); m() = {}", f.m())));
                            }
                            if f.m() < 1 {
                                return Some(("C07/usability/bloom/m=0".into(), format!("m() = 0; k() = {}", f.k())));
                            }
                            let _ = f.is_empty();
                            let _ = f.len();
                            for k in &keys {
                                let _ = f.insert(k);
                            }
                            for k in keys.iter().take(200) {
                                if !f.query(k) {
                                    return Some(("C07/usability/bloom/false-negative".into(), "inserted key not found".into()));
                                }
                            }
                            let _ = f.len();
                            let _ = f.is_empty();
                            let g = $g;
                            let _ = f.union(&g);
                            f.clear();
                            let _ = f.query(&1u64);
                        }};
                    }
                    if which == 0 {
                        exercise!(BloomFilter::<u64>::with_properties(n, p), BloomFilter::<u64>::with_properties(n, p));
                    } else {
                        let bh = CtlBuildHasher::new(HMode::Mix, 77);
                        exercise!(B::with_properties_and_hash(n, p, bh), B::with_properties_and_hash(n, p, bh));
                    }
                    None
                });
                match res {
                    Ok(None) => {
                        rep.count("usable_configurations", 1);
                        rep.nontrivial(fnv(label.as_bytes()));
                    }
                    Ok(Some((sig, what))) => rep.violation(sig, format!("{}: {}", label, what), wit),
                    Err(msg) => rep.violation(format!("C07/usability/bloom/panic/{}", panic_class(&msg)), format!("{}: panicked: {}", label, msg), wit),
                }
            }
            // ---- Cuckoo _4 / _8
            for bsz in [4usize, 8] {
                if p < 2.0 * bsz as f64 * 2f64.powi(-64) {
                    continue;
                }
                rep.evaluations += 1;
                let label = format!("cuckoo.with_properties_{}(p={},n={})", bsz, p, n);
                let wit = json!({"filter": "cuckoo", "bucketsize": bsz, "n": n, "p": p, "profile": ctx.profile});
                let seed = r.next();
                let res = guarded(|| -> Option<(String, String)> {
                    let bh = CtlBuildHasher::new(HMode::Mix, seed);
                    let mut f: C = if bsz == 4 { C::with_properties_and_hash_4(p, n, CtlRng::fast(seed), bh) } else { C::with_properties_and_hash_8(p, n, CtlRng::fast(seed), bh) };
                    if f.bucketsize() != bsz || f.n_buckets() < 2 || !f.n_buckets().is_power_of_two() || f.l_fingerprint() < 2 || f.l_fingerprint() > 64 {
                        return Some(("C07/usability/cuckoo/parameters".into(), format!("bucketsize {} n_buckets {} l_fingerprint {}", f.bucketsize(), f.n_buckets(), f.l_fingerprint())));
                    }
                    if f.n_buckets() * f.bucketsize() < n {
                        return Some(("C07/usability/cuckoo/too-small".into(), format!("{} slots for {} expected elements", f.n_buckets() * f.bucketsize(), n)));
                    }
                    for (i, k) in keys.iter().enumerate() {
                        if f.insert(k).is_err() {
                            return Some(("C07/usability/cuckoo/full-within-n".into(), format!("insert #{} of {} distinct elements reported Full", i + 1, n)));
                        }
                    }
                    if f.len() != keys.len() {
                        return Some(("C07/usability/cuckoo/len".into(), format!("len() = {} after {} inserts", f.len(), keys.len())));
                    }
                    for k in keys.iter().take(200) {
                        if !f.query(k) {
                            return Some(("C07/usability/cuckoo/false-negative".into(), "inserted key not found".into()));
                        }
                    }
                    let g: C = if bsz == 4 { C::with_properties_and_hash_4(p, n, CtlRng::fast(seed), bh) } else { C::with_properties_and_hash_8(p, n, CtlRng::fast(seed), bh) };
                    let _ = f.union(&g);
                    f.clear();
                    let _ = f.is_empty();
                    None
                });
                match res {
                    Ok(None) => {
                        rep.count("usable_configurations", 1);
                        rep.nontrivial(fnv(label.as_bytes()));
                    }
                    Ok(Some((sig, what))) => rep.violation(sig, format!("{}: {}", label, what), wit),
                    Err(msg) => rep.violation(format!("C07/usability/cuckoo/panic/{}", panic_class(&msg)), format!("{}: panicked: {}", label, msg), wit),
                }
            }
        }
    }
}

// ---------------------------------------------------------------------------------------------
// rates

#[derive(Clone, Debug)]
enum Cell {
    Bloom { n: usize, p: f64 },
    Cuckoo { bsz: usize, n: usize, p: f64 },
    Qf { q: usize, r: usize, fill: f64 },
}

impl Cell {
    fn label(&self) -> String {
        match self {
            Cell::Bloom { n, p } => format!("bloom/n={}/p={}", n, p),
            Cell::Cuckoo { bsz, n, p } => format!("cuckoo{}/n={}/p={}", bsz, n, p),
            Cell::Qf { q, r, fill } => format!("qf/q={}/r={}/fill={}", q, r, fill),
        }
    }
}

struct SeedResult {
    fp_frac: f64,
    bound: f64,
    /// Bloom: (len() - distinct, allowed) when at most half the bits are set
    len_dev: Option<(f64, f64)>,
    failed: Option<(String, String)>,
}

fn one_seed(cell: &Cell, mode: HMode, seed: u64, probes: usize) -> SeedResult {
    let bh = CtlBuildHasher::new(mode, seed);
    let key = |i: u64| i; // inserted keys 0..n, probes from 2^40 upward: disjoint by construction
    let probe = |i: u64| (1u64 << 40) + i;
    match cell {
        Cell::Bloom { n, p } => {
            let mut f = B::with_properties_and_hash(*n, *p, bh);
            if seed & 3 == 2 {
                // every fourth seed: a reused filter - n other elements first, then clear() (seventh round:
                // the rate and the len() estimate of a cleared filter are those of a fresh one)
                for i in 0..*n as u64 {
                    let _ = f.insert(&((1u64 << 41) + i));
                }
                f.clear();
            }
            if seed & 3 == 1 {
                // every fourth seed: the middle third of the elements arrives through union()
                // (documented as equivalent to inserting them)
                let (a, b) = (*n as u64 / 3, 2 * *n as u64 / 3);
                let mut g = B::with_properties_and_hash(*n, *p, bh);
                for i in 0..a {
                    let _ = f.insert(&key(i));
                }
                for i in a..b {
                    let _ = g.insert(&key(i));
                }
                let _ = f.union(&g);
                for i in b..*n as u64 {
                    let _ = f.insert(&key(i));
                }
            } else {
                for i in 0..*n as u64 {
                    let _ = f.insert(&key(i));
                }
            }
            let mut fp = 0u64;
            for i in 0..probes as u64 {
                if f.query(&probe(i)) {
                    fp += 1;
                }
            }
            // len clause: only while at most half the bits are set
            let (m, k) = (f.m() as f64, f.k().max(1) as f64);
            let t = k * *n as f64 / m;
            let expected_set = m * (1.0 - (-t).exp());
            let len_dev = if expected_set <= 0.5 * m {
                let sigma = (m * (t.exp() - 1.0 - t)).max(0.0).sqrt() / k;
                Some(((f.len() as f64 - *n as f64).abs(), (5.0 * sigma + 2.0).max(0.05 * *n as f64)))
            } else {
                None
            };
            SeedResult { fp_frac: fp as f64 / probes as f64, bound: (1.3 * p).min(1.0), len_dev, failed: None }
        }
        Cell::Cuckoo { bsz, n, p } => {
            let mut f: C = if *bsz == 4 { C::with_properties_and_hash_4(*p, *n, CtlRng::fast(seed), bh) } else { C::with_properties_and_hash_8(*p, *n, CtlRng::fast(seed), bh) };
            for i in 0..*n as u64 {
                if f.insert(&key(i)).is_err() {
                    return SeedResult { fp_frac: 0.0, bound: *p, len_dev: None, failed: Some(("C07/cuckoo/full-within-n".into(), format!("insert #{} of {} reported Full", i + 1, n))) };
                }
            }
            let mut fp = 0u64;
            for i in 0..probes as u64 {
                if f.query(&probe(i)) {
                    fp += 1;
                }
            }
            SeedResult { fp_frac: fp as f64 / probes as f64, bound: *p, len_dev: None, failed: None }
        }
        Cell::Qf { q, r, fill } => {
            let mut f: QuotientFilter<u64, CtlBuildHasher> = QuotientFilter::with_params_and_hash(*q, *r, bh);
            let target = (((1usize << q) as f64 * fill) as usize).min(4096);
            let mut i = 0u64;
            while f.len() < target && i < 4 * (1u64 << q) {
                let _ = f.insert(&key(i));
                i += 1;
            }
            let m = f.len() as f64;
            let mut fp = 0u64;
            for j in 0..probes as u64 {
                if f.query(&probe(j)) {
                    fp += 1;
                }
            }
            SeedResult { fp_frac: fp as f64 / probes as f64, bound: (m * 2f64.powi(-((q + r) as i32))).min(1.0), len_dev: None, failed: None }
        }
    }
}

struct CellOut {
    fracs: Vec<f64>,
    bound: f64,
    worst_len_ratio: f64,
    len_bad: Option<(f64, f64, u64)>,
    failed: Option<(String, String)>,
}

fn run_cell(ctx: &Ctx, cell: &Cell, mode: HMode, stage: u64, seeds: usize, probes: usize) -> CellOut {
    let out: Mutex<Vec<(usize, SeedResult)>> = Mutex::new(vec![]);
    let label = cell.label();
    let _ = par_run(ctx, seeds, |s, _| {
        let seed = ctx.sub_seed(&[stage, rngs_str(&label), s as u64, matches!(mode, HMode::Sip) as u64]);
        let r = one_seed(cell, mode, seed, probes);
        out.lock().unwrap().push((s, r));
    });
    let mut v = out.into_inner().unwrap();
    v.sort_by_key(|x| x.0);
    let mut o = CellOut { fracs: vec![], bound: 0.0, worst_len_ratio: 0.0, len_bad: None, failed: None };
    for (s, r) in v {
        o.fracs.push(r.fp_frac);
        o.bound = o.bound.max(r.bound);
        if let Some((dev, allowed)) = r.len_dev {
            o.worst_len_ratio = o.worst_len_ratio.max(dev / allowed);
            if dev > allowed && o.len_bad.is_none() {
                o.len_bad = Some((dev, allowed, s as u64));
            }
        }
        if o.failed.is_none() {
            o.failed = r.failed;
        }
    }
    o
}

fn rngs_str(s: &str) -> u64 {
    crate::infra::rngs::str_seed(s)
}

fn rates(ctx: &Ctx, rep: &mut Report) {
    let mut cells: Vec<Cell> = vec![];
    for &n in &[50usize, 1000, 20_000] {
        for &p in &[1e-3, 0.01, 0.02, 0.1, 0.2501, 0.3, 0.5, 0.51, 0.75] {
            cells.push(Cell::Bloom { n, p });
        }
        // small targets (many hash functions): only affordable for the mid-sized filter
        if n == 1000 {
            for &p in &[1e-4, 1e-6] {
                cells.push(Cell::Bloom { n, p });
            }
        }
        if n == 50 {
            cells.push(Cell::Bloom { n, p: 1e-4 });
        }
    }
    for &bsz in &[4usize, 8] {
        for &n in &[50usize, 1000, 20_000] {
            for &p in &[1e-3, 0.02, 0.1, 0.5] {
                cells.push(Cell::Cuckoo { bsz, n, p });
            }
        }
    }
    // very small targets: fingerprints of 31..44 bits; no false positive is expected in any run
    for &bsz in &[4usize, 8] {
        for &(n, p) in &[(1000usize, 1e-9), (1000, 1e-12), (20_000, 7e-9), (20_000, 1e-10)] {
            cells.push(Cell::Cuckoo { bsz, n, p });
        }
    }
    for &(q, r) in &[(4usize, 4usize), (6, 2), (6, 4), (8, 4), (8, 8), (10, 6), (12, 3), (8, 56), (16, 48), (3, 61), (10, 40), (6, 12), (4, 10), (5, 9), (3, 8)] {
        for &fill in &[0.25, 0.5, 1.0] {
            cells.push(Cell::Qf { q, r, fill });
        }
    }
    let seeds = ctx.tier.pick(160, 1600);
    let mut cells_json = vec![];
    for cell in &cells {
        for mode in [HMode::Mix, HMode::Sip] {
            let label = format!("{}{}", cell.label(), if mode == HMode::Sip { "/siphash" } else { "" });
            if mode == HMode::Sip && !matches!(cell, Cell::Bloom { n: 1000, .. } | Cell::Qf { q: 8, .. } | Cell::Cuckoo { n: 1000, .. }) {
                continue;
            }
            if mode == HMode::Sip && matches!(cell, Cell::Bloom { p, .. } if *p < 1e-5) {
                continue; // 19 SipHash evaluations per probe: too slow for the quick budget
            }
            if let Some(o) = &ctx.only {
                if !label.contains(o.as_str()) {
                    continue;
                }
            }
            // probes: >= 200 expected false positives per cell at the bound, at least 2000 per seed
            let bound_guess = match cell {
                Cell::Bloom { p, .. } => 1.3 * p,
                Cell::Cuckoo { p, .. } => *p,
                Cell::Qf { q, r, fill } => ((1usize << q) as f64 * fill * 2f64.powi(-((q + r) as i32))).min(1.0),
            };
            let target = (if bound_guess < 1e-5 { 150.0 } else { 400.0 }) * ctx.tier.pick(1.0, 8.0);
            // bounds below 1e-8 cannot be resolved; such cells only detect gross excess (any false positive)
            let probes = if bound_guess < 1e-8 { 20_000 } else { ((target / (bound_guess * seeds as f64)).ceil() as usize).clamp(2000, ctx.tier.pick(2_000_000, 8_000_000)) };
            let seeds = match cell {
                Cell::Bloom { n, .. } | Cell::Cuckoo { n, .. } if *n >= 20_000 => (seeds / 4).max(32),
                _ => seeds,
            };
            let s1 = run_cell(ctx, cell, mode, 1, seeds, probes);
            rep.evaluations += (seeds * probes) as u64;
            rep.config(&label);
            for s in 0..seeds {
                let mut h = CaseHash::new(&label);
                h.push(s as u64);
                rep.nontrivial(h.0);
            }
            if let Some((sig, what)) = &s1.failed {
                rep.violation(sig.clone(), format!("{}: {}", label, what), json!({"cell": label}));
                continue;
            }
            let m1 = stats::mean(&s1.fracs);
            let se1 = stats::se(&s1.fracs);
            let flagged = m1 - 5.0 * se1 > s1.bound;
            let family = match cell {
                Cell::Bloom { .. } => "bloom",
                Cell::Cuckoo { .. } => "cuckoo",
                Cell::Qf { .. } => "qf",
            };
            rep.max(&format!("worst_fp_rate_over_bound/{}", family), m1 / s1.bound);
            let mut cj = json!({"cell": label, "seeds": seeds, "probes_per_seed": probes, "fp_rate": m1, "se": se1, "bound": s1.bound, "ratio": m1 / s1.bound, "flagged": flagged});
            if flagged {
                let s2 = run_cell(ctx, cell, mode, 2, seeds * 4, probes);
                rep.evaluations += (seeds * 4 * probes) as u64;
                let m2 = stats::mean(&s2.fracs);
                let se2 = stats::se(&s2.fracs);
                cj["stage2"] = json!({"fp_rate": m2, "se": se2});
                if m2 - 5.0 * se2 > s2.bound {
                    rep.violation_mag(
                        format!("C07/rate/{}", label),
                        format!("{}: false-positive frequency {:.6} (stage 1, {} seeds) / {:.6} (stage 2, {} fresh seeds) exceeds the bound {:.6}", label, m1, seeds, m2, seeds * 4, s1.bound),
                        json!({"cell": label, "stage1": {"rate": m1, "se": se1}, "stage2": {"rate": m2, "se": se2}, "bound": s1.bound}),
                        m2 / s1.bound,
                    );
                }
            }
            if let Cell::Bloom { n, p } = cell {
                rep.max("worst_bloom_len_deviation_over_allowed", s1.worst_len_ratio);
                if let Some((dev, allowed, s)) = s1.len_bad {
                    // confirm on fresh seeds: a 5-sigma estimator excursion must not repeat systematically
                    let s2 = run_cell(ctx, cell, mode, 3, seeds, 1);
                    if s2.len_bad.is_some() {
                        rep.violation(
                            format!("C07/bloom-len/n={}/p={}", n, p),
                            format!("{}: len() deviates from the {} distinct inserted elements by {:.1} > allowed {:.1} (seed #{}), and again on fresh seeds", label, n, dev, allowed, s),
                            json!({"cell": label, "deviation": dev, "allowed": allowed}),
                        );
                    }
                }
            }
            if rep.want_sample() {
                rep.sample(cj.clone());
            }
            cells_json.push(cj);
        }
    }
    rep.extra.insert("cells".into(), json!(cells_json));
}

pub fn run(ctx: &Ctx) -> Report {
    let mut rep = Report::new();
    usability(ctx, &mut rep);
    if !ctx.is_dbg() {
        rates(ctx, &mut rep);
    }
    rep
}
