//! Shared workload generators for the filter properties (C01, C06, C12, C13, C14).
use crate::infra::flt::{BloomCfg, CuckooCfg, QfCfg, RngSpec};
use crate::infra::hashers::{CtlBuildHasher, HMode};
use crate::infra::rngs::FastRng;

/// hasher families of DESIGN §3.1 for generic (non-crafted) workloads
/// hash words at the edges of the 64-bit range (under the Identity hasher a key is its own hash)
pub const EXTREME_WORDS: [u64; 10] = [0, 1, u64::MAX, u64::MAX - 1, 1 << 63, (1 << 63) - 1, 1 << 32, u32::MAX as u64, (1 << 63) + 1, u64::MAX / 3];

pub fn pick_hasher(r: &mut FastRng) -> CtlBuildHasher {
    match r.below(10) {
        0..=3 => CtlBuildHasher::new(HMode::Mix, r.next()),
        4..=5 => CtlBuildHasher::new(HMode::Sip, r.next()),
        6 => CtlBuildHasher::new(HMode::Collide(1 + r.below(6) as u8), r.next()),
        // every element hashes to one word; half of the time an extreme one (all ones maps to the
        // largest fingerprint / remainder, all zeros to the smallest)
        7 => CtlBuildHasher::new(HMode::Constant, if r.chance(0.5) { *r.pick(&EXTREME_WORDS) } else { r.next() }),
        8 => CtlBuildHasher::identity(),
        _ => CtlBuildHasher::layout(),
    }
}

pub fn pick_rng(r: &mut FastRng) -> RngSpec {
    match r.below(8) {
        0..=3 => RngSpec::Fast(r.next()),
        4 => RngSpec::Hostile(r.next(), 0.05),
        5 => RngSpec::Hostile(r.next(), 0.5),
        6 => RngSpec::Hostile(r.next(), 0.95),
        _ => RngSpec::ChaCha(r.next()),
    }
}

pub fn pick_bloom(r: &mut FastRng) -> BloomCfg {
    let m = *r.pick(&[1usize, 2, 3, 7, 8, 63, 64, 65, 128, 1000, 4096, 100_000]);
    let k = if r.chance(0.2) {
        *r.pick(&[1usize, 12, 17, 70]) // incl. k > m
    } else {
        1 + r.below(12) as usize
    };
    BloomCfg {
        m,
        k,
        bh: pick_hasher(r),
    }
}

pub fn pick_cuckoo(r: &mut FastRng, max_slots: usize) -> CuckooCfg {
    loop {
        let bucketsize = *r.pick(&[2usize, 2, 3, 4, 4, 5, 7, 8]);
        let n_buckets = 1usize << (1 + r.below(6)); // 2..64
        let l = *r.pick(&[2usize, 3, 4, 5, 8, 8, 13, 16, 31, 32, 33, 40, 48, 63, 64]);
        if bucketsize * n_buckets > max_slots {
            continue;
        }
        return CuckooCfg {
            bucketsize,
            n_buckets,
            l,
            bh: pick_hasher(r),
            rng: pick_rng(r),
        };
    }
}

/// rare shapes: buckets wider than 256 slots (slot-in-bucket no longer fits a byte)
pub fn pick_cuckoo_wide_bucket(r: &mut FastRng) -> CuckooCfg {
    CuckooCfg {
        bucketsize: *r.pick(&[257usize, 300, 511]),
        n_buckets: 2,
        l: *r.pick(&[8usize, 16, 33]),
        bh: CtlBuildHasher::new(HMode::Mix, r.next()),
        rng: pick_rng(r),
    }
}

pub fn pick_qf(r: &mut FastRng, max_q: usize) -> QfCfg {
    let q = 1 + r.below(max_q as u64) as usize;
    let r_bits = match r.below(8) {
        0 => 64 - q,
        1 => 1,
        2 => 2,
        3 => 3,
        4 => 4,
        5 => 8,
        6 => 16,
        _ => 1 + r.below(12) as usize,
    };
    QfCfg {
        q,
        r: r_bits,
        bh: pick_hasher(r),
    }
}

/// Key whose hash under the Identity hasher carries the (q+r)-bit fingerprint value `v` both in its
/// lowest and in its highest q+r bits, so that it enumerates the fingerprints of an implementation
/// that cuts them from the low end of the hash (the pinned tree) as well as of one that cuts them
/// from the top. Which hash bits a filter uses is not part of any property.
pub fn qf_fp_key(cfg: &QfCfg, v: u64) -> u64 {
    let w = cfg.q + cfg.r;
    if w <= 32 {
        v | (v << (64 - w))
    } else {
        v
    }
}

/// Key universe for a quotient filter. Under the Identity hasher keys are crafted
/// (quotient, remainder) pairs, optionally with random "trash" bits above q+r that the filter must
/// ignore; otherwise random 64-bit keys.
pub fn qf_universe(cfg: &QfCfg, r: &mut FastRng, size: usize) -> Vec<u64> {
    let mut u: Vec<u64> = Vec::with_capacity(size);
    if cfg.bh.mode != HMode::Identity {
        while u.len() < size {
            u.push(r.next());
        }
        return u;
    }
    let nq = 1u64 << cfg.q;
    let nr: u64 = if cfg.r >= 64 { u64::MAX } else { 1u64 << cfg.r };
    let fp_bits = cfg.q + cfg.r;
    let style = r.below(5);
    let hot = r.below(nq);
    let span = 1 + r.below(4);
    let rem_span = if r.chance(0.5) { nr.min(8) } else { nr };
    let mut seen = std::collections::HashSet::new();
    if r.chance(0.3) {
        for w in [0u64, u64::MAX, 1 << 63] {
            if u.len() < size && seen.insert(w) {
                u.push(w);
            }
        }
    }
    let mut tries = 0;
    while u.len() < size && tries < size * 20 {
        tries += 1;
        let quot = match style {
            0 => r.below(nq),                                   // spread
            1 => (hot + r.below(span)) % nq,                    // hot quotient(s)
            2 => (nq - 1 - r.below(span.min(nq)) + r.below(2 * span)) % nq, // around the wrap
            3 => {
                // two hot spots
                if r.chance(0.5) {
                    (hot + r.below(2)) % nq
                } else {
                    (hot + nq / 2 + r.below(2)) % nq
                }
            }
            _ => {
                if r.chance(0.7) {
                    (hot + r.below(span)) % nq
                } else {
                    r.below(nq)
                }
            }
        };
        let rem = if rem_span == u64::MAX {
            r.next()
        } else {
            r.below(rem_span)
        };
        let mut k = (quot << cfg.r) | rem;
        if fp_bits < 64 && r.chance(0.25) {
            k |= r.next() << fp_bits; // trash bits
        }
        if seen.insert(k) {
            u.push(k);
        }
        // single-bit neighbours: keys whose fingerprints differ in exactly one (often high) bit, so a
        // truncated comparison or a narrowed copy of a remainder / quotient makes them collide
        if fp_bits > 1 && r.chance(0.3) && u.len() < size {
            let bit = if r.chance(0.6) { fp_bits - 1 - r.below(fp_bits.min(34) as u64) as usize } else { r.below(fp_bits as u64) as usize };
            let k2 = (k ^ (1u64 << bit)) & if fp_bits >= 64 { u64::MAX } else { (1u64 << fp_bits) - 1 };
            if seen.insert(k2) {
                u.push(k2);
            }
        }
    }
    u
}

/// Key universe for a cuckoo filter. Under the Layout hasher key = (fingerprint selector << 32) |
/// bucket, concentrated on a few buckets and fingerprints.
pub fn cuckoo_universe(cfg: &CuckooCfg, r: &mut FastRng, size: usize) -> Vec<u64> {
    let mut u: Vec<u64> = Vec::with_capacity(size);
    if cfg.bh.mode != HMode::Layout {
        if cfg.bh.mode == HMode::Identity || r.chance(0.1) {
            // keys that are extreme hash words under the Identity hasher
            let mut e = EXTREME_WORDS.to_vec();
            r.shuffle(&mut e);
            u.extend(e.into_iter().take(size.min(1 + r.below(6) as usize)));
        }
        while u.len() < size {
            u.push(r.next());
        }
        return u;
    }
    let nb = cfg.n_buckets as u64;
    let hot_buckets = 1 + r.below(3.min(nb));
    let base = r.below(nb);
    let n_fp = 1 + r.below(12);
    let mut seen = std::collections::HashSet::new();
    let mut tries = 0;
    while u.len() < size && tries < size * 20 {
        tries += 1;
        let bucket = if r.chance(0.8) {
            (base + r.below(hot_buckets)) % nb
        } else {
            r.below(nb)
        };
        let fp = if r.chance(0.8) {
            r.below(n_fp)
        } else {
            r.below(1 << 20)
        };
        // upper bits of the bucket word are ignored by the filter (masked)
        let noise = if r.chance(0.2) { r.below(8) * nb } else { 0 };
        let k = (fp << 32) | (bucket + noise);
        if seen.insert(k) {
            u.push(k);
        }
    }
    u
}
