//! C15 — T-Digest quantile and cdf are monotone, bounded and mutually consistent.
use crate::infra::rngs::FastRng;
use crate::infra::td::*;
use crate::infra::*;
use serde_json::json;

pub const RULE: &str = "digests as in C04 plus weighted inserts (weights 1e-3..1e3 and 1..1e6; one block of items in eight at extreme magnitudes: values ~1e150 with weights x1e80 and values ~1e-150 with weights x1e-90), zeros fed as -0.0 in every other block, total-fusion digests (delta 1.1), 1- and 2-point digests and digests whose outermost centroids carry weight > 1; per digest a grid of 2001+ q values (incl. 0, 1 and values next to both ends) and 1000+ x values around [min,max] (incl. every centroid mean +-1 ulp, min/max +-1 ulp): quantile non-decreasing, within [min,max], = min at 0 and = max at 1; cdf non-decreasing, within [0,1], 0 below min, 1 from max upward; |cdf(quantile(q)) - q| within the local resolution read from the digest's own centroids; repeated reads bit-identical; empty digest NaN / 0. Tolerance tau = 16*eps*max(|min|,|max|,range)*(W_total/w_min) on the value axis, 16*eps*(W_total/w_min) on the probability axis. non-trivial = digest with >= 3 centroids whose first or last centroid has weight > smallest inserted weight; distinct = (config, family, seed) tuples";
pub const ASSUMPTIONS: &[&str] = &[
    "local resolution for the cdf(quantile(q)) clause = weight of centroids whose mean lies within tau (at least 64 ulp) of the returned value + 1/4 of the interpolation cell containing q (cells read through the verif_centroids accessor) + probability-axis tolerance",
    "T-digest monitors run with debug assertions off (DESIGN 2.3)",
];

fn ulp_up(x: f64) -> f64 {
    if x == 0.0 {
        return f64::MIN_POSITIVE;
    }
    let b = x.to_bits();
    f64::from_bits(if x > 0.0 { b + 1 } else { b - 1 })
}
fn ulp_down(x: f64) -> f64 {
    -ulp_up(-x)
}

pub struct Stats {
    pub consistency_ratio: f64,
    /// (deviation - tie weight) / (quarter cell + tolerance): how much of the non-tie allowance is used
    pub nontie_ratio: f64,
    pub mono_excursion_tau: f64,
    pub end_excursion_tau: f64,
    pub reads: u64,
}

/// all C15 clauses on one (non-empty) digest
pub fn check_digest(t: &dyn Td, w_min: f64, data_points: &[f64], r: &mut FastRng, st: &mut Stats) -> Result<(), (String, String)> {
    let cents = t.centroids();
    let s: f64 = cents.iter().map(|c| c.1).sum();
    let (mn, mx) = (t.min(), t.max());
    // (a data range that overflows f64 does not make the tolerance infinite)
    let scale = if (mx - mn).is_finite() { mn.abs().max(mx.abs()).max(mx - mn) } else { mn.abs().max(mx.abs()) };
    let ratio = (s / w_min).max(1.0);
    let tau = 16.0 * f64::EPSILON * scale * ratio;
    let ptol = 16.0 * f64::EPSILON * ratio;
    // ---- quantile grid
    let mut qs: Vec<f64> = vec![0.0, 1.0, f64::MIN_POSITIVE, 1e-300, 1e-18, 1.0 - f64::EPSILON / 2.0, 1.0 - 1e-12, 0.5];
    for i in 0..=2000 {
        qs.push(i as f64 / 2000.0);
    }
    // both sides of every interpolation node
    let mut cum = 0.0;
    for c in &cents {
        let node = (cum + 0.5 * c.1) / s;
        for v in [node, ulp_up(node), ulp_down(node)] {
            if (0.0..=1.0).contains(&v) {
                qs.push(v);
            }
        }
        cum += c.1;
    }
    for _ in 0..100 {
        qs.push(r.f64());
    }
    qs.sort_by(|a, b| a.partial_cmp(b).unwrap());
    qs.dedup();
    let mut prev = f64::NEG_INFINITY;
    let mut prev_q = 0.0;
    let mut xs_from_q: Vec<(f64, f64)> = Vec::with_capacity(qs.len());
    for &q in &qs {
        st.reads += 1;
        let x = t.quantile(q);
        if x.is_nan() {
            return Err(("C15/quantile-nan-on-non-empty".into(), format!("quantile({:e}) is NaN", q)));
        }
        if x < mn - tau || x > mx + tau {
            return Err((
                format!("C15/quantile-out-of-range/{}", if x < mn { "below-min" } else { "above-max" }),
                format!("quantile({:e}) = {:e} outside [min, max] = [{:e}, {:e}] (tau = {:e})", q, x, mn, mx, tau),
            ));
        }
        if x < prev - tau {
            return Err(("C15/quantile-not-monotone".into(), format!("quantile({:e}) = {:e} < quantile({:e}) = {:e} (drop {:e}, tau = {:e})", q, x, prev_q, prev, prev - x, tau)));
        }
        if tau > 0.0 {
            st.mono_excursion_tau = st.mono_excursion_tau.max((prev - x) / tau).max((mn - x) / tau).max((x - mx) / tau);
        }
        prev = x.max(prev);
        prev_q = q;
        xs_from_q.push((q, x));
    }
    let (q0, q1) = (t.quantile(0.0), t.quantile(1.0));
    if (q0 - mn).abs() > tau {
        return Err(("C15/quantile-0-not-min".into(), format!("quantile(0) = {:e} but min() = {:e} (tau = {:e})", q0, mn, tau)));
    }
    if (q1 - mx).abs() > tau {
        return Err(("C15/quantile-1-not-max".into(), format!("quantile(1) = {:e} but max() = {:e} (tau = {:e}; last centroid weight {:e})", q1, mx, tau, cents.last().map(|c| c.1).unwrap_or(0.0))));
    }
    if tau > 0.0 {
        st.end_excursion_tau = st.end_excursion_tau.max((q0 - mn).abs() / tau).max((q1 - mx).abs() / tau);
    }
    // ---- cdf grid
    let span = if (mx - mn).is_finite() { (mx - mn).max(scale * 1e-3).max(1e-300) } else { f64::MAX / 4.0 };
    let mut xs: Vec<f64> = vec![mn, mx, ulp_up(mn), ulp_down(mn), ulp_up(mx), ulp_down(mx), mn - 1.0, mx + 1.0, mn - span, mx + span, f64::MAX, f64::MIN, f64::INFINITY, f64::NEG_INFINITY, mn - 2.0 * tau, mx + 2.0 * tau];
    for i in 0..=1000 {
        xs.push(mn - 0.05 * span + (1.1 * span) * i as f64 / 1000.0);
    }
    for c in &cents {
        xs.push(c.0);
        xs.push(ulp_up(c.0));
        xs.push(ulp_down(c.0));
    }
    // exactly the inserted values (tied values differ from a fused centroid's mean by an ulp)
    for x in data_points {
        xs.push(*x);
        xs.push(ulp_up(*x));
        xs.push(ulp_down(*x));
    }
    xs.retain(|x| !x.is_nan());
    xs.sort_by(|a, b| a.partial_cmp(b).unwrap());
    xs.dedup();
    let mut prevp = f64::NEG_INFINITY;
    let mut prevx = f64::NEG_INFINITY;
    for &x in &xs {
        st.reads += 1;
        let p = t.cdf(x);
        if p.is_nan() || p < -ptol || p > 1.0 + ptol {
            return Err(("C15/cdf-out-of-range".into(), format!("cdf({:e}) = {:e} outside [0, 1]", x, p)));
        }
        if p < prevp - ptol {
            return Err(("C15/cdf-not-monotone".into(), format!("cdf({:e}) = {:e} < cdf({:e}) = {:e}", x, p, prevx, prevp)));
        }
        if x < mn - tau && p > ptol {
            return Err(("C15/cdf-positive-below-min".into(), format!("cdf({:e}) = {:e} although x < min() = {:e}", x, p, mn)));
        }
        if x >= mx + tau && p < 1.0 - ptol {
            return Err(("C15/cdf-below-1-at-or-above-max".into(), format!("cdf({:e}) = {:e} although x >= max() = {:e} (tau = {:e})", x, p, mx, tau)));
        }
        prevp = p.max(prevp);
        prevx = x;
    }
    // ---- mutual consistency, using the digest's own cells
    // nodes: 0, (cum_i + w_i/2)/s ..., 1
    let mut nodes: Vec<f64> = vec![0.0];
    let mut cum = 0.0;
    for c in &cents {
        nodes.push((cum + 0.5 * c.1) / s);
        cum += c.1;
    }
    nodes.push(1.0);
    let tie_eps = tau.max(64.0 * f64::EPSILON * scale);
    for (q, x) in &xs_from_q {
        st.reads += 1;
        let p = t.cdf(*x);
        // cell containing q (the wider neighbour on a boundary)
        let k = nodes.partition_point(|v| *v < *q);
        let mut cell: f64 = 0.0;
        for kk in [k.saturating_sub(1), k, k + 1] {
            if kk >= 1 && kk < nodes.len() && nodes[kk - 1] <= *q + ptol && *q <= nodes[kk] + ptol {
                cell = cell.max(nodes[kk] - nodes[kk - 1]);
            }
        }
        let ties: f64 = cents.iter().filter(|c| (c.0 - *x).abs() <= tie_eps).map(|c| c.1).sum::<f64>() / s;
        let res = ties + 0.25 * cell + 4.0 * ptol + 1e-12;
        let dev = (p - *q).abs();
        st.consistency_ratio = st.consistency_ratio.max(dev / res);
        st.nontie_ratio = st.nontie_ratio.max((dev - ties).max(0.0) / (0.25 * cell + 4.0 * ptol + 1e-12));
        if dev > res {
            let region = if *q <= nodes[1] { "left-tail" } else if *q >= nodes[nodes.len() - 2] { "right-tail" } else { "interior" };
            return Err((
                format!("C15/cdf-quantile-inconsistent/{}", region),
                format!("cdf(quantile({:e})) = cdf({:e}) = {:e}: deviation {:e} exceeds the local resolution {:e} (cell width {:e}, tie weight {:e})", q, x, p, dev, res, cell, ties),
            ));
        }
    }
    // ---- repeated reads
    for _ in 0..20 {
        let q = r.f64();
        let (a, b) = (t.quantile(q), t.quantile(q));
        if a.to_bits() != b.to_bits() {
            return Err(("C15/repeated-read-differs".into(), format!("quantile({}) returned {:e} then {:e}", q, a, b)));
        }
        let x = mn + (mx - mn) * r.f64();
        let (a, b) = (t.cdf(x), t.cdf(x));
        if a.to_bits() != b.to_bits() {
            return Err(("C15/repeated-read-differs".into(), format!("cdf({}) returned {:e} then {:e}", x, a, b)));
        }
    }
    Ok(())
}

/// the first read after inserts, another kind of read, then the first read again: bit-identical
fn first_read_repeatable(t: &dyn Td, r: &mut FastRng) -> Result<(), (String, String)> {
    let (mn, mx) = (t.min(), t.max());
    let x0 = mn + (mx - mn) * r.f64();
    let q0 = r.f64();
    match r.below(3) {
        0 => {
            let a = t.cdf(x0);
            let _ = t.quantile(q0);
            let b = t.cdf(x0);
            if a.to_bits() != b.to_bits() {
                return Err(("C15/repeated-read-differs/cdf-first".into(), format!("cdf({:e}) returned {:e} as the first read after inserts and {:e} after an intervening quantile()", x0, a, b)));
            }
        }
        1 => {
            let a = t.quantile(q0);
            let _ = t.cdf(x0);
            let b = t.quantile(q0);
            if a.to_bits() != b.to_bits() {
                return Err(("C15/repeated-read-differs/quantile-first".into(), format!("quantile({}) returned {:e} as the first read after inserts and {:e} after an intervening cdf()", q0, a, b)));
            }
        }
        _ => {}
    }
    Ok(())
}

fn check_empty(t: &dyn Td) -> Result<(), (String, String)> {
    for q in [0.0, 0.3, 1.0] {
        if !t.quantile(q).is_nan() {
            return Err(("C15/empty-quantile-not-nan".into(), format!("quantile({}) on an empty digest = {:e}", q, t.quantile(q))));
        }
    }
    for x in [-1.0, 0.0, 1e300, f64::MAX, f64::MIN, f64::INFINITY, f64::NEG_INFINITY] {
        if t.cdf(x) != 0.0 {
            return Err(("C15/empty-cdf-not-0".into(), format!("cdf({}) on an empty digest = {:e}", x, t.cdf(x))));
        }
    }
    Ok(())
}

fn item(ctx: &Ctx, i: usize, rep: &mut Report) {
    let mut r = FastRng::new(ctx.sub_seed(&[i as u64]));
    let sf = ALL_SF[i % 4];
    let delta = *r.pick(&[1.1, 1.5, 2.0, 4.0, 5.0, 10.0, 20.0, 50.0, 100.0, 300.0, 1000.0]);
    let backlog = *r.pick(&[0usize, 1, 10, 1000]);
    let fams: Vec<Family> = SMOOTH.iter().chain(TIES.iter()).copied().collect();
    let fam = fams[(i / 4) % 14];
    let wmode = r.below(4); // 0,1: unit; 2: 1e-3..1e3; 3: 1..1e6
    let n: usize = match r.below(10) {
        0 => 1,
        1 => 2,
        2 => 3 + r.below(10) as usize,
        3..=6 => 20 + r.below(2000) as usize,
        _ => 2000 + r.below(ctx.tier.pick(30_000, 200_000)) as usize,
    };
    let label = format!("tdigest({},delta={},backlog={},{},weights={})", sf.name(), delta, backlog, fam.name(), ["unit", "unit", "1e-3..1e3", "1..1e6"][wmode as usize]);
    let (vscale, voffset): (f64, f64) = *r.pick(&[(1.0, 0.0), (1.0, 0.0), (1e-19, 0.0), (1e9, 0.0), (1e4, 1.7e12), (-1.0, 0.0), (1e12, 0.0)]);
    // One block of items in eight runs at extreme magnitudes (added after the seventh round of seeded changes):
    // every value, weight, centroid sum x*w and the total weight stay finite and normal, but value*w*w'
    // leaves the f64 range in either direction - a digest that orders or interpolates by cross-multiplying
    // instead of dividing breaks here and nowhere else. The selection depends on the item number only, so
    // the other items draw exactly what they drew before.
    let (vscale, voffset, wscale) = match (i / 56) % 16 {
        3 => (1e150 * vscale.signum(), 0.0, 1e80),
        11 => (1e-150 * vscale.signum(), 0.0, 1e-90),
        _ => (vscale, voffset, 1.0),
    };
    let label = if wscale != 1.0 { format!("{} values~{:e} weights x{:e}", label, vscale, wscale) } else { label };
    rep.config(&label);
    let mut t = make_td(sf, delta, backlog);
    let mut st = Stats { consistency_ratio: 0.0, nontie_ratio: 0.0, mono_excursion_tau: 0.0, end_excursion_tau: 0.0, reads: 0 };
    let mut w_min = f64::INFINITY;
    let mut points: Vec<f64> = vec![];
    let heavy_ends = r.chance(0.2);
    let res = guarded(|| -> Result<(), (String, String)> {
        check_empty(t.as_ref())?;
        let mid_check = if n > 10 { 1 + r.below(n as u64 - 1) as usize } else { usize::MAX };
        for k in 0..n {
            let x = fam.gen(&mut r, k, n) * vscale + voffset;
            // every other block of items feeds its zeros as -0.0 (seventh round)
            let x = if (i / 56) % 2 == 1 && x == 0.0 { -0.0 } else { x };
            let w = match wmode {
                2 => 10f64.powf(r.f64() * 6.0 - 3.0),
                3 => 10f64.powf(r.f64() * 6.0).floor(),
                _ => 1.0,
            };
            let w = if heavy_ends && (k < 2 || k + 2 >= n) { w * 1000.0 } else { w };
            let w = w * wscale;
            w_min = w_min.min(w);
            if points.len() < 64 && (k < 32 || r.chance(0.01)) {
                points.push(x);
            }
            if w == 1.0 && wscale == 1.0 {
                t.insert(x);
            } else {
                t.insert_weighted(x, w);
            }
            if k + 1 == mid_check {
                first_read_repeatable(t.as_ref(), &mut r)?;
                check_digest(t.as_ref(), w_min, &points, &mut r, &mut st)?;
            }
        }
        first_read_repeatable(t.as_ref(), &mut r)?;
        check_digest(t.as_ref(), w_min, &points, &mut r, &mut st)?;
        // after clear: empty behaviour again
        let mut c = t.boxed_clone();
        c.clear();
        check_empty(c.as_ref())?;
        Ok(())
    });
    rep.evaluations += st.reads;
    rep.count("digests", 1);
    rep.max("worst_consistency_deviation_over_resolution", st.consistency_ratio);
    rep.max("worst_nontie_consistency_excess_over_quarter_cell_allowance", st.nontie_ratio);
    rep.max("worst_monotonicity_or_range_excursion_in_tau", st.mono_excursion_tau);
    rep.max("worst_end_point_excursion_in_tau", st.end_excursion_tau);
    let bad = match res {
        Ok(Ok(())) => None,
        Ok(Err(b)) => Some(b),
        Err(msg) => Some((format!("C15/panic/{}", panic_class(&msg)), format!("panicked: {}", msg))),
    };
    let cents = guarded(|| t.centroids()).unwrap_or_default();
    if let Some((sig, what)) = bad {
        rep.violation(
            format!("{}/{}", sig, sf.name()),
            format!("{} after {} inserts ({} centroids): {}", label, n, cents.len(), what),
            json!({"scale": sf, "delta": delta, "backlog": backlog, "family": fam.name(), "n": n, "weight_mode": wmode, "heavy_ends": heavy_ends, "value_scale": vscale, "value_offset": voffset, "weight_scale": wscale, "item": i,
                   "min": t.min(), "max": t.max(), "centroids_head": cents.iter().take(12).collect::<Vec<_>>(), "centroids_tail": cents.iter().rev().take(6).collect::<Vec<_>>()}),
        );
        return;
    }
    if cents.len() >= 3 && (cents[0].1 > w_min || cents[cents.len() - 1].1 > w_min) {
        let mut h = CaseHash::new(&label);
        h.push(i as u64);
        rep.nontrivial(h.0);
        if rep.want_sample() {
            rep.sample(json!({"config": label, "n": n, "centroids": cents.len(), "first_centroid": cents[0], "last_centroid": cents[cents.len() - 1], "reads": st.reads}));
        }
    }
}

/// A handful of points whose magnitude is close to f64::MAX, on both sides of zero, kept as
/// singleton centroids (delta = 1000): differences of neighbouring means overflow, the values
/// themselves do not. Only the clauses that do not depend on a finite data range are meaningful
/// here, and check_digest applies them with a tolerance of a few ulps of max(|min|, |max|).
fn huge_span(rep: &mut Report) {
    let sets: [&[f64]; 6] = [
        &[-1e308, 1e308],
        &[-1.2e308, 0.9e308],
        &[-1.7e308, 0.0, 1.7e308],
        &[f64::MIN, f64::MAX],
        &[-0.9e308, 0.8e308],
        &[-1.5e308, -1.0, 2.0, 3.0, 1.6e308],
    ];
    for (si, set) in sets.iter().enumerate() {
        for sf in ALL_SF {
            for backlog in [0usize, 10] {
                let label = format!("tdigest({},delta=1000,backlog={},huge-span set #{})", sf.name(), backlog, si);
                rep.config(&label);
                let mut st = Stats { consistency_ratio: 0.0, nontie_ratio: 0.0, mono_excursion_tau: 0.0, end_excursion_tau: 0.0, reads: 0 };
                let mut r = FastRng::new(si as u64 * 31 + backlog as u64);
                let res = guarded(|| -> Result<(), (String, String)> {
                    let mut t = make_td(sf, 1000.0, backlog);
                    for x in set.iter() {
                        t.insert(*x);
                    }
                    check_digest(t.as_ref(), 1.0, set, &mut r, &mut st)
                });
                rep.evaluations += st.reads;
                rep.count("huge_span_digests", 1);
                let bad = match res {
                    Ok(Ok(())) => None,
                    Ok(Err(b)) => Some(b),
                    Err(msg) => Some((format!("C15/panic/{}", panic_class(&msg)), format!("panicked: {}", msg))),
                };
                if let Some((sig, what)) = bad {
                    rep.violation(sig.replacen("C15/", "C15/huge-span/", 1), format!("{} holding {:?}: {}", label, set, what), json!({"scale": sf, "backlog": backlog, "values": set}));
                }
            }
        }
    }
}

pub fn run(ctx: &Ctx) -> Report {
    let n = ctx.tier.pick(6000, 100_000);
    let mut rep = par_run(ctx, n, |i, rep| {
        if i == 0 {
            huge_span(rep);
        }
        item(ctx, i, rep)
    });
    rep.require_events(&["TdQuantileLeft", "TdQuantileInterior", "TdQuantileRight", "TdCdfBelowMin", "TdCdfInterior", "TdCdfRightTail", "TdCdfAtOrAboveMax"]);
    rep
}
