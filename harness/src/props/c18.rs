//! C18 — reservoir contents are always a valid sample of the stream.
use crate::infra::rngs::{CtlRng, FastRng};
use crate::infra::*;
use pdatastructs::reservoirsampling::ReservoirSampling;
use serde_json::json;

pub const RULE: &str = "k in {1,2,3,7,64,1000} (plus one run with k = 2^32-1 and 2^32+1000 adds of a zero-sized item, and k in {2^33..usize::MAX} with 1/8/16-byte items for 2000 adds incl. extend/clone/clear in a child process), stream = position ids, n across all three phases and their boundaries and up to 1e5 (1e6 thorough); RNGs: FastRng, HostileRng with p in {0.05,0.5,0.95}, scripted prefixes (all-zero / all-ones / alternating words); after every add / Extend::extend run (n <= 3000) or every 97 adds (about 40 % of the runs feed parts of the stream through extend() with an iterator whose size hint over-estimates): len = min(n,k), every item < n, no repeated position, prefix kept in order until the (k+1)-th add, i() = n, is_empty iff n = 0; any panic is a violation; streams of <= 20000 items are followed by clear() and a second identical round. non-trivial = run that reached the gap-sampling phase with >= 1 accepted and >= 1 skipped item; distinct = (k, n, rng) tuples";
pub const ASSUMPTIONS: &[&str] = &["hostile RNGs are never constant, so rand's own rejection loops terminate"];

fn rng_for(kind: u64, seed: u64, r: &mut FastRng) -> (CtlRng, String) {
    match kind {
        0 => (CtlRng::fast(seed), "fast".into()),
        1 => (CtlRng::hostile(seed, 0.05), "hostile(0.05)".into()),
        2 => (CtlRng::hostile(seed, 0.5), "hostile(0.5)".into()),
        3 => (CtlRng::hostile(seed, 0.95), "hostile(0.95)".into()),
        4 => (CtlRng::script(vec![0; 64 + r.below(400) as usize], seed), "script(all-zero prefix)".into()),
        5 => (CtlRng::script(vec![u64::MAX; 16 + r.below(64) as usize], seed), "script(all-ones prefix)".into()),
        6 => (CtlRng::script((0..200).map(|i| if i % 2 == 0 { 0 } else { u64::MAX }).collect(), seed), "script(alternating)".into()),
        7 => (CtlRng::script((0..300).map(|i| if i % 3 == 0 { 1 } else if i % 3 == 1 { u64::MAX - 1 } else { 1 << 63 }).collect(), seed), "script(near-extremes)".into()),
        _ => (CtlRng::chacha(seed), "chacha".into()),
    }
}

fn item(ctx: &Ctx, i: usize, rep: &mut Report) {
    let mut r = FastRng::new(ctx.sub_seed(&[i as u64, ctx.is_dbg() as u64]));
    let k = [1usize, 2, 3, 7, 64, 1000][i % 6];
    let big = ctx.tier.pick(100_000, 1_000_000);
    let n = match r.below(8) {
        0 => r.below(k as u64 + 2) as usize,
        1 => 4 * k - 1 + r.below(4) as usize,
        2 => k + r.below(3 * k as u64 + 1) as usize,
        3 | 4 => 4 * k + r.below(20 * k as u64 + 50) as usize,
        5 => 5 * k + 1,
        6 => (big / 10).max(8 * k),
        _ => big.max(8 * k),
    };
    let n = if ctx.is_dbg() { n.min(60_000) } else { n };
    let (rng, rname) = rng_for((i / 6) as u64 % 9, r.next(), &mut r);
    let label = format!("reservoir(k={},n={},{})", k, n, rname);
    rep.config(format!("k={},{}", k, rname));
    let snap0 = pdatastructs::verif::snapshot();
    let every = if n <= 3000 { 1 } else { 97 };
    let use_extend = r.chance(0.4);
    let clone_at: Option<usize> = if r.chance(0.4) { Some(if r.chance(0.5) { r.below(k as u64 + 2) as usize } else { r.below(n as u64 + 1) as usize }) } else { None };
    let mut xr = FastRng::new(r.next());
    let res = guarded(|| -> Option<(String, String)> {
        let mut s: ReservoirSampling<u32, CtlRng> = ReservoirSampling::new(k, rng);
        if !s.is_empty() || s.i() != 0 || !s.reservoir().is_empty() || s.k() != k {
            return Some(("C18/fresh-state".into(), "fresh sampler is not empty".into()));
        }
        let mut seen = vec![0u32; n.max(1)];
        let mut stamp = 0u32;
        // two rounds: the second one after clear() (a cleared sampler must again hold exactly
        // min(n, k) items of the new stream, prefix first)
        let rounds = if n <= 20_000 { 2 } else { 1 };
        for round in 0..rounds {
        if round == 1 {
            s.clear();
            if !s.is_empty() || s.i() != 0 || !s.reservoir().is_empty() {
                return Some(("C18/state-after-clear".into(), format!("after clear(): i() = {}, is_empty() = {}, {} items", s.i(), s.is_empty(), s.reservoir().len())));
            }
        }
        let mut fed = 0usize;
        while fed < n {
            if fed & 0x3ff == 0 {
                beat();
            }
            if clone_at == Some(fed) && round == 0 {
                s = s.clone(); // continue on a clone (also while the reservoir is still filling)
            }
            if use_extend && xr.chance(0.02) {
                // feed a run through Extend with an iterator whose size hint over-estimates (filter)
                let l = (1 + xr.below(60) as usize).min(n - fed);
                let base = fed as u32;
                s.extend((0..2 * l as u32).filter(|j| j % 2 == 0).map(|j| base + j / 2));
                fed += l;
            } else {
                s.add(fed as u32);
                fed += 1;
            }
            let cnt = fed;
            if cnt % every != 0 && cnt != n && cnt > k + 60 {
                continue;
            }
            let rv = s.reservoir();
            if s.i() != cnt {
                return Some(("C18/i".into(), format!("i() = {} after {} adds", s.i(), cnt)));
            }
            if s.is_empty() {
                return Some(("C18/is_empty".into(), format!("is_empty() after {} adds", cnt)));
            }
            if rv.len() != cnt.min(k) {
                return Some(("C18/len".into(), format!("reservoir holds {} items after {} adds (k = {})", rv.len(), cnt, k)));
            }
            if cnt <= k {
                for (j, v) in rv.iter().enumerate() {
                    if *v as usize != j {
                        return Some(("C18/prefix-not-kept".into(), format!("after {} <= k adds the reservoir is not the stream prefix: slot {} holds {}", cnt, j, v)));
                    }
                }
            }
            stamp += 1;
            for v in rv {
                if (*v as usize) >= cnt {
                    return Some(("C18/item-not-from-stream".into(), format!("reservoir holds {} after only {} adds", v, cnt)));
                }
                if seen[*v as usize] == stamp {
                    return Some(("C18/repeated-position".into(), format!("stream position {} occurs twice in the reservoir after {} adds", v, cnt)));
                }
                seen[*v as usize] = stamp;
            }
        }
        }
        None
    });
    rep.evaluations += if n <= 20_000 { 2 * n as u64 } else { n as u64 };
    rep.count("runs", 1);
    match res {
        Ok(None) => {
            let snap = pdatastructs::verif::snapshot();
            let d = |e: Event| snap[e as usize] - snap0[e as usize];
            if d(Event::ResGapAccept) > 0 && d(Event::ResGapSkip) > 0 {
                let mut h = CaseHash::new(&label);
                h.push(i as u64);
                rep.nontrivial(h.0);
                if rep.want_sample() {
                    rep.sample(json!({"run": label, "gap_accepts": d(Event::ResGapAccept), "gap_skips": d(Event::ResGapSkip), "reservoir_phase_replacements": d(Event::ResReplace)}));
                }
            }
        }
        Ok(Some((sig, what))) => rep.violation(sig, format!("{}: {}", label, what), json!({"k": k, "n": n, "rng": rname, "item": i})),
        Err(msg) => rep.violation(format!("C18/panic/{}", panic_class(&msg)), format!("{}: add panicked: {}", label, msg), json!({"k": k, "n": n, "rng": rname, "item": i})),
    }
}

/// "add never panics for any k >= 1 and any stream length": k = 2^32 - 1 with more than 2^32 adds of a
/// zero-sized item (arithmetic that only wraps for values beyond 32 bits). Release build only.
fn huge_k(rep: &mut Report) {
    let k: usize = u32::MAX as usize;
    let n: u64 = (1u64 << 32) + 1000;
    let res = guarded(|| -> Option<(String, String)> {
        let mut s: ReservoirSampling<(), CtlRng> = ReservoirSampling::new(k, CtlRng::fast(7));
        for j in 0..n {
            s.add(());
            if j & 0xff_ffff == 0 {
                beat(); // progress heartbeat for the liveness monitor
            }
        }
        if s.i() as u64 != n {
            return Some(("C18/i".into(), format!("i() = {} after {} adds (k = {})", s.i(), n, k)));
        }
        if s.reservoir().len() != k {
            return Some(("C18/len".into(), format!("reservoir holds {} items after {} adds (k = {})", s.reservoir().len(), n, k)));
        }
        None
    });
    rep.evaluations += n;
    rep.count("huge_k_runs", 1);
    match res {
        Ok(None) => {}
        Ok(Some((sig, what))) => rep.violation(sig, format!("reservoir(k=2^32-1, zero-sized items): {}", what), json!({"k": k, "n": n})),
        Err(msg) => rep.violation(format!("C18/panic/{}", panic_class(&msg)), format!("reservoir(k=2^32-1, n={}, zero-sized items): add panicked: {}", n, msg), json!({"k": k, "n": n})),
    }
}

/// Huge k with items that do have a size (k*size_of::<T>() far beyond any memory, partly beyond
/// isize::MAX): the reservoir only ever holds min(n, k) items, so 2000 adds must work. Runs in a
/// child process: a failed allocation aborts and cannot be caught by catch_unwind.
pub fn huge_k_child() -> i32 {
    fn one<T: Clone + PartialEq + std::fmt::Debug>(k: usize, mk: impl Fn(u64) -> T) -> Option<String> {
        let mut s: ReservoirSampling<T, CtlRng> = ReservoirSampling::new(k, CtlRng::fast(k as u64));
        let n = 2000u64;
        for j in 0..n / 2 {
            s.add(mk(j));
        }
        s.extend((n / 2..n).map(&mk));
        if s.i() as u64 != n || s.reservoir().len() as u64 != n {
            return Some(format!("i() = {}, reservoir().len() = {} after {} adds", s.i(), s.reservoir().len(), n));
        }
        if let Some(j) = (0..n).find(|j| s.reservoir()[*j as usize] != mk(*j)) {
            return Some(format!("reservoir()[{}] = {:?} is not the {}-th item of the stream", j, s.reservoir()[j as usize], j));
        }
        let mut c = s.clone();
        c.add(mk(n));
        s.clear();
        s.add(mk(0));
        if c.reservoir().len() as u64 != n + 1 || s.reservoir().len() != 1 || !c.reservoir().contains(&mk(n)) {
            return Some("clone()/clear() followed by add() gives a wrong reservoir".into());
        }
        None
    }
    for k in [1usize << 33, 1 << 40, 1 << 59, 1 << 60, usize::MAX / 16 + 1, usize::MAX / 4, usize::MAX / 2 + 1, usize::MAX - 1, usize::MAX] {
        for ty in 0..3 {
            let res = guarded(|| match ty {
                0 => one::<u64>(k, |j| j),
                1 => one::<(u64, u64)>(k, |j| (j, !j)),
                _ => one::<u8>(k, |j| (j % 251) as u8),
            });
            let tyname = ["u64", "(u64,u64)", "u8"][ty];
            match res {
                Ok(None) => println!("HUGEK k={} T={} ok", k, tyname),
                Ok(Some(w)) => {
                    println!("HUGEK k={} T={} wrong: {}", k, tyname, w);
                    return 1;
                }
                Err(msg) => {
                    println!("HUGEK k={} T={} panic: {}", k, tyname, msg);
                    return 1;
                }
            }
        }
    }
    0
}

fn huge_k_sized(rep: &mut Report) {
    rep.evaluations += 27 * 2001;
    let Ok(exe) = std::env::current_exe() else { return };
    match std::process::Command::new(exe).arg("c18-hugek").output() {
        Ok(o) => {
            let out = String::from_utf8_lossy(&o.stdout).to_string();
            let err: String = String::from_utf8_lossy(&o.stderr).chars().take(400).collect();
            if o.status.success() {
                rep.count("huge_k_sized_item_runs_ok", 27);
            } else {
                let last = out.lines().last().unwrap_or("").to_string();
                rep.violation(
                    "C18/huge-k/sized-items",
                    format!("ReservoirSampling with a huge k (2^33 .. usize::MAX) and items of 1, 8 or 16 bytes: the child process doing 2000 adds ended abnormally (status {:?}); last line: '{}'; stderr: {}", o.status.code(), last, err),
                    json!({"stdout_tail": out.lines().rev().take(3).collect::<Vec<_>>(), "stderr": err}),
                );
            }
        }
        Err(e) => rep.inconclusive.push(format!("cannot spawn the huge-k child: {}", e)),
    }
}

pub fn run(ctx: &Ctx) -> Report {
    let n = match (ctx.tier, ctx.is_dbg()) {
        (Tier::Quick, false) => 20_000,
        (Tier::Quick, true) => 3000,
        (Tier::Thorough, false) => 200_000,
        (Tier::Thorough, true) => 4000,
    };
    let mut rep = par_run(ctx, n, |i, rep| {
        if i == 0 && !ctx.is_dbg() {
            huge_k(rep);
        }
        if i == 1 {
            huge_k_sized(rep);
        }
        item(ctx, i, rep)
    });
    rep.require_events(&["ResFill", "ResReplace", "ResNoReplace", "ResGapAccept", "ResGapSkip"]);
    rep
}
