//! C03 — HyperLogLog estimates stay within the advertised relative error.
use crate::infra::hashers::{CtlBuildHasher, HMode};
use crate::infra::rngs::FastRng;
use crate::infra::*;
use pdatastructs::hyperloglog::HyperLogLog;
use serde_json::json;
use std::sync::Mutex;

pub const RULE: &str = "per precision b in 4..=18: S independent random 64-bit hash streams (add_hashed), count() sampled at ~240 cardinalities per precision (n=1..8, log-spaced to 0.5m, every m/40 in [0.5m,5.5m], log-spaced to 50m); per checkpoint RMS, mean and 3*RE tail fraction of the relative error over seeds are compared with the bounds of DESIGN §4 C03 (two-stage: flagged cells are re-run on fresh seeds with 4x the trials); real hashers (SipHash, Mix) on sequential integers and decimal strings through add() on a coarser grid; arbitrary register vectors (all-0, all-255, outliers, random bytes) for the no-panic clause. non-trivial = one (precision, seed) stream that reached all three estimator regimes; distinct = (b, seed) pairs";
pub const ASSUMPTIONS: &[&str] = &[
    "random 64-bit hashes are distinct (collision probability < 1e-5 per stream)",
    "absolute errors <= 3 units are treated as zero deviation (integer effects, as the property allows)",
];

type Hll = HyperLogLog<u64, CtlBuildHasher>;

pub fn grid(b: usize) -> Vec<u64> {
    let m = (1u64 << b) as f64;
    let mut g: Vec<u64> = (1..=8).collect();
    let lo = 9f64;
    let hi = 0.5 * m;
    if hi > lo {
        for i in 0..40 {
            g.push((lo * (hi / lo).powf(i as f64 / 40.0)).round() as u64);
        }
    }
    let mut x = 0.5 * m;
    while x <= 5.5 * m + 1e-9 {
        g.push(x.round() as u64);
        x += m / 40.0;
    }
    for i in 1..=20 {
        g.push((5.5 * m * (50.0 / 5.5f64).powf(i as f64 / 20.0)).round() as u64);
    }
    g.retain(|n| *n >= 1);
    g.sort_unstable();
    g.dedup();
    g
}

#[derive(Clone, Debug, Default)]
struct Acc {
    seeds: u64,
    sum: Vec<f64>,
    sumsq: Vec<f64>,
    tail: Vec<u64>,
    /// small-n (b >= 9, n <= 8): number of (seed, n) observations with |count-n| > 1, total
    /// observations, and the worst (n, count) seen
    small_off: u64,
    small_total: u64,
    small_worst: Option<(u64, u64)>,
    empty_bad: Option<u64>,
    re_bad: Option<f64>,
    regimes: [u64; 3],
}

impl Acc {
    fn new(k: usize) -> Self {
        Acc {
            seeds: 0,
            sum: vec![0.0; k],
            sumsq: vec![0.0; k],
            tail: vec![0; k],
            small_off: 0,
            small_total: 0,
            small_worst: None,
            empty_bad: None,
            re_bad: None,
            regimes: [0; 3],
        }
    }
    fn add(&mut self, o: &Acc) {
        self.seeds += o.seeds;
        for i in 0..self.sum.len() {
            self.sum[i] += o.sum[i];
            self.sumsq[i] += o.sumsq[i];
            self.tail[i] += o.tail[i];
        }
        self.small_off += o.small_off;
        self.small_total += o.small_total;
        if let Some((n, c)) = o.small_worst {
            let d = (c as i64 - n as i64).abs();
            if self.small_worst.map(|(n0, c0)| (c0 as i64 - n0 as i64).abs() < d).unwrap_or(true) {
                self.small_worst = Some((n, c));
            }
        }
        if self.empty_bad.is_none() {
            self.empty_bad = o.empty_bad;
        }
        if self.re_bad.is_none() {
            self.re_bad = o.re_bad;
        }
        for i in 0..3 {
            self.regimes[i] += o.regimes[i];
        }
    }
}

/// one pass per seed over the grid (or only the checkpoints in `only`), accumulating into acc
fn stream_pass(b: usize, g: &[u64], only: Option<&[usize]>, seed: u64, acc: &mut Acc) {
    let mut h = Hll::with_hash(b, CtlBuildHasher::identity());
    // The property is phrased relative to relative_error(), so the getter is the yardstick: an
    // implementation that advertises a (correctly) larger error for a cheaper estimator, or rounds the
    // constant to 1.04, satisfies it. (An earlier version compared the getter with
    // sqrt(3 ln 2 - 1)/sqrt(m) to 1e-9 - stricter than the statement; a neutral change returning
    // 1.04/sqrt(m) showed that.) Only a value that cannot be an error figure at all is reported.
    let re = h.relative_error();
    if !(re.is_finite() && re > 0.0 && re < 1.0) {
        acc.re_bad = Some(re);
    }
    let re = if re.is_finite() && re > 0.0 { re } else { (3f64 * 2f64.ln() - 1f64).sqrt() / ((1u64 << b) as f64).sqrt() };
    let mut r = FastRng::new(seed);
    if h.count() != 0 {
        acc.empty_bad = Some(h.count() as u64);
    }
    let last = match only {
        Some(o) => o.iter().map(|i| g[*i]).max().unwrap_or(0),
        None => *g.last().unwrap(),
    };
    let mut n = 0u64;
    let s0 = pdatastructs::verif::snapshot();
    for (gi, &target) in g.iter().enumerate() {
        if target > last {
            break;
        }
        while n < target {
            if n & 0xfff == 0 {
                beat();
            }
            h.add_hashed(r.next());
            n += 1;
        }
        if let Some(o) = only {
            if !o.contains(&gi) {
                continue;
            }
        }
        let c = h.count() as f64;
        let nf = n as f64;
        let abs = (c - nf).abs();
        let e = if abs <= 3.0 { 0.0 } else { (c - nf) / nf };
        acc.sum[gi] += e;
        acc.sumsq[gi] += e * e;
        if e.abs() > 3.0 * re {
            acc.tail[gi] += 1;
        }
        if b >= 9 && n <= 8 {
            acc.small_total += 1;
            if abs > 1.0 {
                acc.small_off += 1;
                let d = abs as i64;
                if acc.small_worst.map(|(n0, c0)| (c0 as i64 - n0 as i64).abs() < d).unwrap_or(true) {
                    acc.small_worst = Some((n, c as u64));
                }
            }
        }
    }
    let s1 = pdatastructs::verif::snapshot();
    acc.regimes[0] += s1[Event::HllCountLinear as usize] - s0[Event::HllCountLinear as usize];
    acc.regimes[1] += s1[Event::HllCountBias as usize] - s0[Event::HllCountBias as usize];
    acc.regimes[2] += s1[Event::HllCountRaw as usize] - s0[Event::HllCountRaw as usize];
    acc.seeds += 1;
}

#[derive(Clone, Debug)]
struct Flag {
    gi: usize,
    clause: &'static str,
    observed: f64,
    bound: f64,
}

/// worst |mean|/RE per region: below bump, bump, (2m, 5.5m], (5.5m, 20m), >= 20m
fn regional_means(b: usize, g: &[u64], acc: &Acc) -> [f64; 5] {
    let m = (1u64 << b) as f64;
    let re = (3f64 * 2f64.ln() - 1f64).sqrt() / m.sqrt();
    let s = acc.seeds as f64;
    let mut w = [0f64; 5];
    for gi in 0..g.len() {
        let x = g[gi] as f64 / m;
        let r = if x < 0.5 { 0 } else if x <= 2.0 { 1 } else if x <= 5.5 { 2 } else if x < 20.0 { 3 } else { 4 };
        w[r] = w[r].max((acc.sum[gi] / s).abs() / re);
    }
    w
}

fn evaluate(b: usize, g: &[u64], acc: &Acc, only: Option<&[usize]>) -> (Vec<Flag>, [f64; 4]) {
    let m = (1u64 << b) as f64;
    let re = (3f64 * 2f64.ln() - 1f64).sqrt() / m.sqrt();
    let s = acc.seeds as f64;
    let mut flags = vec![];
    // worst ratios: rms outside, rms inside bump, mean, tail
    let mut worst = [0f64; 4];
    for gi in 0..g.len() {
        if let Some(o) = only {
            if !o.contains(&gi) {
                continue;
            }
        }
        let n = g[gi] as f64;
        let mean = acc.sum[gi] / s;
        let rms = (acc.sumsq[gi] / s).sqrt();
        let in_bump = n >= 0.5 * m && n <= 2.0 * m;
        let slack = 1.0 + 5.0 / (2.0 * s).sqrt();
        let rms_bound = if in_bump { 2.2 } else { 1.15 } * re * slack;
        if in_bump {
            worst[1] = worst[1].max(rms / re);
        } else {
            worst[0] = worst[0].max(rms / re);
        }
        if rms > rms_bound {
            flags.push(Flag { gi, clause: if in_bump { "rms-in-bump" } else { "rms" }, observed: rms / re, bound: rms_bound / re });
        }
        // raw-estimate regime (the bias correction ends at 5 m): HLL is unbiased there; observed
        // on the unchanged tree: |mean| <= 0.07 RE for 5.5m..20m and <= 0.05 RE beyond (large S)
        let mean_c = if n > 5.5 * m {
            0.1
        } else if in_bump {
            1.0
        } else {
            0.6
        };
        let mean_bound = mean_c * re + 5.0 * rms.max(0.3 * re) / s.sqrt();
        worst[2] = worst[2].max(mean.abs() / re);
        if mean.abs() > mean_bound {
            flags.push(Flag { gi, clause: if n > 5.5 * m { "mean-raw-regime" } else { "mean" }, observed: mean / re, bound: mean_bound / re });
        }
        let tail = acc.tail[gi] as f64;
        worst[3] = worst[3].max(tail / s);
        let tail_bound = 0.03 * s + 5.0 * (0.03 * 0.97 * s).sqrt() + 1.0;
        if tail > tail_bound {
            flags.push(Flag { gi, clause: "tail-3re", observed: tail / s, bound: tail_bound / s });
        }
    }
    (flags, worst)
}

fn seeds_for(ctx: &Ctx, b: usize) -> usize {
    match (ctx.tier, ctx.is_dbg()) {
        (Tier::Quick, false) => if b <= 8 { 10_000 } else if b <= 12 { 5000 } else if b <= 15 { 1500 } else { 600 },
        (Tier::Thorough, false) => if b <= 8 { 60_000 } else if b <= 12 { 20_000 } else if b <= 15 { 6000 } else { 2500 },
        (_, true) => 0,
    }
}

fn no_panic_part(ctx: &Ctx, rep: &mut Report) {
    let mut r = FastRng::new(ctx.sub_seed(&[0xBAD]));
    let rounds = ctx.tier.pick(6, 40);
    for b in 4..=18usize {
        let m = 1usize << b;
        let mut vecs: Vec<(String, Vec<u8>)> = vec![
            ("all-0".into(), vec![0; m]),
            ("all-255".into(), vec![255; m]),
            ("all-1".into(), vec![1; m]),
            ("all-64".into(), vec![64; m]),
        ];
        let mut one = vec![0u8; m];
        one[r.below(m as u64) as usize] = 255;
        vecs.push(("single-255-outlier".into(), one));
        let mut one = vec![255u8; m];
        one[r.below(m as u64) as usize] = 0;
        vecs.push(("single-0-in-255".into(), one));
        for k in 0..rounds {
            let maxv = *r.pick(&[2u64, 8, 40, 65, 256]);
            vecs.push((format!("random-bytes-below-{}#{}", maxv, k), (0..m).map(|_| r.below(maxv) as u8).collect()));
        }
        // register vectors that put the raw estimate at every region of the bias table
        for k in 0..rounds {
            let fill = r.f64();
            let lvl = 1 + r.below(6) as u8;
            vecs.push((format!("partial-fill#{}", k), (0..m).map(|_| if r.f64() < fill { lvl + r.below(3) as u8 } else { 0 }).collect()));
        }
        for (name, regs) in vecs {
            rep.evaluations += 1;
            let res = guarded(|| {
                let h = Hll::with_registers_and_hash(b, regs.clone(), CtlBuildHasher::identity());
                h.count()
            });
            if let Err(msg) = res {
                rep.violation(
                    format!("C03/count-panics/{}", panic_class(&msg)),
                    format!("hll(b={}): count() panicked for register vector '{}': {}", b, name, msg),
                    json!({"b": b, "registers": name, "registers_head": regs.iter().take(32).collect::<Vec<_>>()}),
                );
            } else {
                rep.count("arbitrary_register_vectors_counted", 1);
            }
        }
    }
}

fn structured_keys(ctx: &Ctx, i: usize, rep: &mut Report) {
    // real hashers on structured keys through add(); coarser grid
    let b = 4 + (i % 11); // 4..=14
    let m = 1u64 << b;
    let seeds = ctx.tier.pick(40, 200);
    let strings = (i / 11) % 2 == 1;
    let mode = if (i / 22) % 2 == 0 { HMode::Sip } else { HMode::Mix };
    let g: Vec<u64> = vec![m / 4, m, 3 * m, 10 * m];
    let mut sum = vec![0f64; g.len()];
    let mut sumsq = vec![0f64; g.len()];
    let mut r = FastRng::new(ctx.sub_seed(&[77, i as u64]));
    let re = (3f64 * 2f64.ln() - 1f64).sqrt() / (m as f64).sqrt();
    for _ in 0..seeds {
        let bh = CtlBuildHasher::new(mode, r.next());
        let mut hu: HyperLogLog<u64, CtlBuildHasher> = HyperLogLog::with_hash(b, bh);
        let mut hs: HyperLogLog<str, CtlBuildHasher> = HyperLogLog::with_hash(b, bh);
        let mut n = 0u64;
        for (gi, &t) in g.iter().enumerate() {
            while n < t {
                if strings {
                    hs.add(format!("{}", n).as_str());
                } else {
                    hu.add(&n);
                }
                n += 1;
            }
            let c = if strings { hs.count() } else { hu.count() } as f64;
            let e = if (c - n as f64).abs() <= 3.0 { 0.0 } else { (c - n as f64) / n as f64 };
            sum[gi] += e;
            sumsq[gi] += e * e;
        }
        rep.evaluations += n;
    }
    let s = seeds as f64;
    for gi in 0..g.len() {
        let n = g[gi] as f64;
        let rms = (sumsq[gi] / s).sqrt();
        let mean = sum[gi] / s;
        let in_bump = n >= 0.5 * m as f64 && n <= 2.0 * m as f64;
        let rms_bound = if in_bump { 2.2 } else { 1.15 } * re * (1.0 + 5.0 / (2.0 * s).sqrt());
        let mean_bound = if in_bump { 1.0 } else { 0.6 } * re + 5.0 * rms.max(0.3 * re) / s.sqrt();
        rep.max("structured_keys_rms_over_re", rms / re);
        if rms > rms_bound || mean.abs() > mean_bound {
            rep.violation_mag(
                format!("C03/structured-keys/{}/{}", if strings { "decimal-strings" } else { "sequential-u64" }, if mode == HMode::Sip { "siphash" } else { "mix" }),
                format!("hll(b={}) on {} with {:?}: at n={} RMS/RE = {:.3} (bound {:.3}), mean/RE = {:.3} (bound {:.3}) over {} seeds", b, if strings { "decimal strings" } else { "sequential integers" }, mode, g[gi], rms / re, rms_bound / re, mean / re, mean_bound / re, seeds),
                json!({"b": b, "n": g[gi], "seeds": seeds}),
                rms / re,
            );
        }
    }
    rep.count("structured_key_cells", g.len() as u64);
}

pub fn run(ctx: &Ctx) -> Report {
    if ctx.is_dbg() {
        // debug-assertion build: only the "count() returns normally" clause
        let mut rep = Report::new();
        no_panic_part(ctx, &mut rep);
        rep.nontrivial(1);
        rep.nontrivial(2);
        return rep;
    }
    // items: (b, chunk)
    let mut items: Vec<(usize, usize, usize)> = vec![]; // (b, first seed, n seeds)
    for b in 4..=18usize {
        let s = seeds_for(ctx, b);
        let chunk = if b >= 15 { 2 } else if b >= 12 { 8 } else if b >= 9 { 40 } else { 250 };
        let mut k = 0;
        while k < s {
            items.push((b, k, chunk.min(s - k)));
            k += chunk;
        }
    }
    // heavy items first for load balance
    items.sort_by_key(|(b, _, _)| std::cmp::Reverse(*b));
    let n_stream = items.len();
    let n_struct = 44;
    let grids: Vec<Vec<u64>> = (0..=18).map(|b| if b >= 4 { grid(b) } else { vec![] }).collect();
    let accs: Mutex<Vec<Option<(usize, Acc)>>> = Mutex::new(vec![None; n_stream]);
    let mut rep = par_run(ctx, n_stream + n_struct + 1, |i, rep| {
        if i < n_stream {
            let (b, first, n) = items[i];
            let g = &grids[b];
            let mut acc = Acc::new(g.len());
            for s in first..first + n {
                let seed = ctx.sub_seed(&[1, b as u64, s as u64]);
                if let Err(msg) = guarded(|| stream_pass(b, g, None, seed, &mut acc)) {
                    rep.violation(
                        format!("C03/count-panics/{}", panic_class(&msg)),
                        format!("hll(b={}): add_hashed/count panicked during a random hash stream (seed #{}): {}", b, s, msg),
                        json!({"b": b, "stream_seed": seed, "seed_index": s}),
                    );
                    return;
                }
                let mut h = CaseHash::new("stream");
                h.push(b as u64);
                h.push(s as u64);
                rep.nontrivial(h.0);
                rep.evaluations += *g.last().unwrap();
            }
            rep.count("count_calls", (g.len() * n) as u64);
            accs.lock().unwrap()[i] = Some((b, acc));
        } else if i < n_stream + n_struct {
            structured_keys(ctx, i - n_stream, rep);
        } else {
            no_panic_part(ctx, rep);
        }
    });
    // stage 1 evaluation (deterministic order)
    let accs = accs.into_inner().unwrap();
    let mut per_b: Vec<Option<Acc>> = vec![None; 19];
    for (b, a) in accs.into_iter().flatten() {
        match &mut per_b[b] {
            Some(t) => t.add(&a),
            None => {
                let mut t = Acc::new(grids[b].len());
                t.add(&a);
                per_b[b] = Some(t);
            }
        }
    }
    let mut cells = vec![];
    for b in 4..=18usize {
        let Some(acc) = &per_b[b] else { continue };
        let g = &grids[b];
        rep.config(format!("hll(b={}) seeds={} checkpoints={}", b, acc.seeds, g.len()));
        if let Some(v) = acc.re_bad {
            rep.violation("C03/relative_error-value", format!("hll(b={}): relative_error() = {} is not a usable error figure (must be finite and in (0, 1))", b, v), json!({"b": b, "relative_error": v}));
        }
        if let Some(c) = acc.empty_bad {
            rep.violation("C03/empty-not-zero", format!("hll(b={}): empty sketch counts {}", b, c), json!({"b": b}));
        }
        // "up to 8 distinct elements are counted to within 1 once b >= 9": register collisions among
        // <= 8 hashes make an error of 2 possible with probability ~ 28^2/(2 m^2) per stream, so the
        // clause is decided as a frequency (<= 2 % of observations) plus a hard cap of 4 units
        if acc.small_total > 0 {
            let frac = acc.small_off as f64 / acc.small_total as f64;
            rep.max("small_n_fraction_off_by_more_than_1", frac);
            let cap_broken = acc.small_worst.map(|(n, c)| (c as i64 - n as i64).abs() > 4).unwrap_or(false);
            if (acc.small_off as f64) > 0.02 * acc.small_total as f64 + 3.0 || cap_broken {
                let (n, c) = acc.small_worst.unwrap();
                rep.violation("C03/small-cardinality-off-by-more-than-1", format!("hll(b={}): {} of {} small-cardinality observations (n <= 8) are off by more than 1; worst: {} distinct elements counted as {}", b, acc.small_off, acc.small_total, n, c), json!({"b": b, "n": n, "count": c, "off": acc.small_off, "total": acc.small_total}));
            }
        }
        for (ri, name) in ["linear", "bias-corrected", "raw"].iter().enumerate() {
            if acc.regimes[ri] == 0 {
                rep.inconclusive.push(format!("hll(b={}): estimator regime '{}' never reached", b, name));
            }
        }
        let rm = regional_means(b, g, acc);
        for (name, v) in ["below-bump", "bump", "2m..5.5m", "5.5m..20m", ">=20m"].iter().zip(rm.iter()) {
            rep.max(&format!("abs_mean_over_re/{}", name), *v);
        }
        let (flags, worst) = evaluate(b, g, acc, None);
        rep.max("rms_over_re_outside_bump", worst[0]);
        rep.max("rms_over_re_inside_bump", worst[1]);
        rep.max("abs_mean_over_re", worst[2]);
        rep.max("tail_fraction_beyond_3re", worst[3]);
        cells.push(json!({"b": b, "seeds": acc.seeds, "checkpoints": g.len(), "worst_rms_over_re_outside_bump": worst[0], "worst_rms_over_re_in_bump": worst[1], "worst_abs_mean_over_re": worst[2], "worst_tail_fraction": worst[3], "stage1_flags": flags.len(),
            "regime_counts": {"linear": acc.regimes[0], "bias": acc.regimes[1], "raw": acc.regimes[2]}}));
        if !flags.is_empty() {
            // stage 2: fresh seeds, 4x trials, flagged checkpoints only
            let only: Vec<usize> = {
                let mut v: Vec<usize> = flags.iter().map(|f| f.gi).collect();
                v.sort_unstable();
                v.dedup();
                v
            };
            let s2 = (acc.seeds as usize * 4).max(200);
            let acc2 = Mutex::new(Acc::new(g.len()));
            let chunk = (s2 / 64).max(1);
            let n_chunks = s2.div_ceil(chunk);
            let parts: Mutex<Vec<(usize, Acc)>> = Mutex::new(vec![]);
            let _ = par_run(ctx, n_chunks, |ci, _| {
                let mut a = Acc::new(g.len());
                for s in (ci * chunk)..((ci + 1) * chunk).min(s2) {
                    stream_pass(b, g, Some(&only), ctx.sub_seed(&[2, b as u64, s as u64]), &mut a);
                }
                parts.lock().unwrap().push((ci, a));
            });
            let mut parts = parts.into_inner().unwrap();
            parts.sort_by_key(|p| p.0);
            {
                let mut t = acc2.lock().unwrap();
                for (_, a) in &parts {
                    t.add(a);
                }
            }
            let acc2 = acc2.into_inner().unwrap();
            let (flags2, _) = evaluate(b, g, &acc2, Some(&only));
            rep.count("stage2_reruns", 1);
            for f2 in &flags2 {
                if let Some(f1) = flags.iter().find(|f| f.gi == f2.gi && f.clause == f2.clause && f.observed.signum() == f2.observed.signum()) {
                    let n = g[f2.gi];
                    let region = {
                        let x = n as f64 / (1u64 << b) as f64;
                        if x < 0.5 { "below-bump" } else if x <= 2.0 { "bump" } else if x <= 5.5 { "bias-corrected" } else { "raw" }
                    };
                    rep.violation_mag(
                        format!("C03/{}/b={}/{}", f2.clause, b, region),
                        format!("hll(b={}): at n={} ({:.3} m) {} = {:.3} x RE exceeds the bound {:.3} x RE (stage 1: {:.3} over {} seeds; stage 2: {:.3} over {} fresh seeds)", b, n, n as f64 / (1u64 << b) as f64, f2.clause, f2.observed, f2.bound, f1.observed, acc.seeds, f2.observed, acc2.seeds),
                        json!({"b": b, "n": n, "clause": f2.clause, "stage1": f1.observed, "stage2": f2.observed, "bound": f2.bound, "seeds": [acc.seeds, acc2.seeds]}),
                        f2.observed.abs(),
                    );
                }
            }
        }
    }
    rep.extra.insert("cells".into(), json!(cells));
    rep.sample(json!({"b": 4, "grid": grid(4)}));
    rep.sample(json!({"b": 12, "grid_head": grid(12).iter().take(60).collect::<Vec<_>>(), "grid_len": grid(12).len()}));
    rep
}
