//! C12 — a failed filter insert or union leaves the filter unchanged.
//!
//! Oracle: observables (len, is_empty, query over the whole universe, and for the cuckoo filter the
//! number of times every key can be deleted on a clone) are recorded immediately before every
//! insert/union; if the call returns Err they must be identical afterwards. `other` of a union is
//! observed before/after as well. Continuation: the quotient filter's pre-state clone is driven
//! with the same later operations and compared step by step; the cuckoo filter continues under
//! the multiset-of-classes model that ignores the failed call (with an attribution re-run).
use crate::infra::flt::*;
use crate::infra::hashers::{CtlBuildHasher, HMode};
use crate::infra::rngs::FastRng;
use crate::infra::*;
use crate::props::common::*;
use crate::props::{c13, c14};
use serde_json::{json, Value};

pub const RULE: &str = "fault sequences: tables driven to Full; cuckoo kick budgets {0,1,2,5,20,500,none} so inserts fail after any number of evictions; unions where self has F free places and other brings M > F new fingerprints (failure at first / middle / last transferred fingerprint, all three required by hook events). quotient filters with 2^10..2^13 slots whose union overshoots the capacity by 1..len/1000+3 elements; observables recorded before every insert/union and compared after every Err; non-trivial = a failing insert or union whose pre/post comparison ran; distinct = distinct (config, history, failing op index) hashes";
pub const ASSUMPTIONS: &[&str] = &[
    "deletable counts are measured on clones (clone independence is C19's business and cross-checked there)",
    "cuckoo continuation is judged against the multiset-of-classes model because eviction choices after a failed call may legitimately differ (RNG advanced)",
];

#[derive(Clone, Debug, PartialEq)]
pub struct Obs {
    len: usize,
    is_empty: bool,
    present: Vec<bool>,
    deletable: Vec<u32>,
}

pub fn observe<F: Flt>(f: &F, universe: &[u64]) -> Obs {
    let present = universe.iter().map(|k| f.query(*k)).collect();
    let mut deletable = vec![];
    if f.has_delete() {
        for k in universe {
            let mut c = f.try_clone().expect("clonable");
            let mut n = 0u32;
            loop {
                match guarded(|| c.delete(*k)) {
                    Ok(Some(true)) if n < 10_000 => n += 1,
                    Ok(_) => break,
                    Err(_) => {
                        // a delete that panics (e.g. count underflow) is recorded as a distinct value
                        n = 1_000_000 + n;
                        break;
                    }
                }
            }
            deletable.push(n);
        }
    }
    Obs {
        len: f.len(),
        is_empty: f.is_empty(),
        present,
        deletable,
    }
}

pub fn diff(pre: &Obs, post: &Obs, universe: &[u64]) -> Option<(String, String)> {
    if pre.len != post.len {
        return Some(("len".into(), format!("len() {} -> {}", pre.len, post.len)));
    }
    if pre.is_empty != post.is_empty {
        return Some((
            "is_empty".into(),
            format!("is_empty() {} -> {}", pre.is_empty, post.is_empty),
        ));
    }
    for (i, k) in universe.iter().enumerate() {
        if pre.present[i] != post.present[i] {
            return Some((
                if post.present[i] { "query-became-true" } else { "query-became-false" }.into(),
                format!("query({}) {} -> {}", k, pre.present[i], post.present[i]),
            ));
        }
    }
    for (i, k) in universe.iter().enumerate() {
        if !pre.deletable.is_empty() && pre.deletable[i] != post.deletable[i] {
            return Some((
                "deletable-count".into(),
                format!(
                    "key {} could be deleted {} times before, {} times after",
                    k, pre.deletable[i], post.deletable[i]
                ),
            ));
        }
    }
    None
}

fn kick_budget(r: &mut FastRng) -> Option<usize> {
    match r.below(9) {
        0 => Some(0),
        1 => Some(1),
        2 => Some(2),
        3 => Some(5),
        4 => Some(20),
        5 => Some(500),
        _ => None,
    }
}

// ---------------------------------------------------------------------------------------------
// cuckoo

fn cuckoo_cfg(r: &mut FastRng, i: usize) -> CuckooCfg {
    let mut cfg = c14::pick_cfg(r, i);
    while cfg.slots() > 128 {
        cfg.n_buckets /= 2;
    }
    cfg.rng = pick_rng(r);
    cfg
}

#[derive(Clone, Debug)]
enum COp {
    Insert(u64),
    Delete(u64),
    Union(Vec<u64>),
}

fn cop_json(o: &COp) -> Value {
    match o {
        COp::Insert(k) => json!({"insert": k}),
        COp::Delete(k) => json!({"delete": k}),
        COp::Union(ks) => json!({"union_with_inserts": ks}),
    }
}

struct CuckooRun {
    /// index of ops that failed
    failed: Vec<usize>,
    /// (step, signature, what) of the first model divergence
    divergence: Option<(usize, String, String)>,
}

/// run ops under the C14 model; ops listed in `skip` are not executed at all
fn cuckoo_model_run(
    cfg: &CuckooCfg,
    cls: &crate::infra::fclass::Classes,
    ops: &[COp],
    skip: &[usize],
    kb: Option<usize>,
) -> CuckooRun {
    pdatastructs::verif::set_kick_budget(kb);
    let mut f = cfg.make();
    let mut m = c14::Model::new(cls, cfg.bucketsize);
    let mut q = 0u64;
    let mut out = CuckooRun {
        failed: vec![],
        divergence: None,
    };
    for (s, op) in ops.iter().enumerate() {
        if skip.contains(&s) {
            continue;
        }
        let res = match op {
            COp::Insert(k) => c14::step(&mut f, &mut m, &c14::Op::Insert(*k), &mut q),
            COp::Delete(k) => c14::step(&mut f, &mut m, &c14::Op::Delete(*k), &mut q),
            COp::Union(ks) => {
                let mut o = cfg.make();
                let mut added: Vec<usize> = vec![];
                pdatastructs::verif::set_kick_budget(None);
                for k in ks {
                    if Flt::insert(&mut o, *k).is_ok() {
                        added.push(m.class(*k));
                    }
                }
                pdatastructs::verif::set_kick_budget(kb);
                match guarded(|| Flt::union(&mut f, &o)) {
                    Err(msg) => Err((format!("panic/{}", panic_class(&msg)), msg)),
                    Ok(Ok(())) => {
                        for c in added {
                            m.count[c] += 1;
                            m.n += 1;
                        }
                        c14::observe(&f, &m, &mut q).map(|_| "union")
                    }
                    Ok(Err(())) => c14::observe(&f, &m, &mut q).map(|_| "full"),
                }
            }
        };
        match res {
            Ok("full") => out.failed.push(s),
            Ok(_) => {}
            Err((sig, what)) => {
                out.divergence = Some((s, sig, what));
                break;
            }
        }
    }
    pdatastructs::verif::set_kick_budget(None);
    out
}

fn cuckoo_item(ctx: &Ctx, i: usize, union_heavy: bool, rep: &mut Report) {
    let mut r = FastRng::new(ctx.sub_seed(&[1, i as u64]));
    let cfg = if i % 512 == 5 { pick_cuckoo_wide_bucket(&mut r) } else { cuckoo_cfg(&mut r, i) };
    let label = cfg.label();
    rep.config(&label);
    let cap = cfg.slots();
    let usz = if cap > 400 { 120 } else { (cap + r.below(cap as u64 + 1) as usize).clamp(8, 160) };
    let universe = cuckoo_universe(&cfg, &mut r, usz);
    if universe.len() < 4 {
        return;
    }
    let Some(cls) = c14::classes_for(&cfg, &universe, rep, "C12") else {
        return;
    };
    let hists = if cap > 400 { 1 } else { 4 };
    for _ in 0..hists {
        let kb = kick_budget(&mut r);
        pdatastructs::verif::set_kick_budget(kb);
        let mut c = cfg.clone();
        c.rng = pick_rng(&mut r);
        let mut f = c.make();
        let mut ops: Vec<COp> = vec![];
        let n_ops = if union_heavy {
            2 + r.below(6) as usize
        } else {
            cap / 2 + r.below(cap as u64 * 3 + 4) as usize
        };
        let mut stored: Vec<u64> = vec![];
        let mut n_failed = 0;
        for s in 0..n_ops {
            let x = r.f64();
            let op = if union_heavy {
                if s == 0 {
                    // pre-fill self so that F free places remain, F in 0..M
                    let n1 = cap.saturating_sub(r.below(cap as u64 / 2 + 2) as usize);
                    COp::Union((0..n1).map(|_| *r.pick(&universe)).collect())
                } else if x < 0.75 {
                    let m_other = 1 + r.below(cap as u64 / 2 + 2) as usize;
                    COp::Union((0..m_other).map(|_| *r.pick(&universe)).collect())
                } else if x < 0.9 && !stored.is_empty() {
                    COp::Delete(stored[r.below(stored.len() as u64) as usize])
                } else {
                    COp::Insert(*r.pick(&universe))
                }
            } else if x < 0.15 && !stored.is_empty() {
                COp::Delete(stored[r.below(stored.len() as u64) as usize])
            } else if x < 0.18 {
                let m_other = 1 + r.below(cap as u64 / 2 + 2) as usize;
                COp::Union((0..m_other).map(|_| *r.pick(&universe)).collect())
            } else {
                COp::Insert(*r.pick(&universe))
            };
            ops.push(op.clone());
            rep.evaluations += 1;
            let witness = |ops: &[COp], f: &Cuckoo, extra: Value| {
                json!({"config": c, "kick_budget": kb, "history": ops.iter().map(cop_json).collect::<Vec<_>>(), "failing_step": ops.len() - 1, "state_after": f.dump(), "detail": extra})
            };
            match &op {
                COp::Insert(k) => {
                    let pre = observe(&f, &universe);
                    match guarded(|| Flt::insert(&mut f, *k)) {
                        Err(msg) => {
                            rep.violation(format!("C12/panic/cuckoo-insert/{}", panic_class(&msg)), format!("{}: insert panicked: {}", label, msg), witness(&ops, &f, json!(null)));
                            break;
                        }
                        Ok(Ok(_)) => stored.push(*k),
                        Ok(Err(())) => {
                            n_failed += 1;
                            rep.count("failed_inserts_compared", 1);
                            let post = observe(&f, &universe);
                            let mut h = CaseHash::new(&label);
                            h.push(s as u64);
                            ops.iter().for_each(|o| h.push_str(&format!("{:?}", o)));
                            rep.nontrivial(h.0);
                            if let Some((what_sig, what)) = diff(&pre, &post, &universe) {
                                rep.violation(
                                    format!("C12/cuckoo/failed-insert/{}", what_sig),
                                    format!("{}: insert({}) returned Err but {}", label, k, what),
                                    witness(&ops, &f, json!({"change": what})),
                                );
                                break;
                            }
                        }
                    }
                }
                COp::Delete(k) => {
                    if CuckooDelete::del(&mut f, *k) {
                        if let Some(p) = stored.iter().position(|x| x == k) {
                            stored.swap_remove(p);
                        }
                    }
                }
                COp::Union(ks) => {
                    let mut o = c.make();
                    let mut okeys = vec![];
                    pdatastructs::verif::set_kick_budget(None);
                    for k in ks {
                        if Flt::insert(&mut o, *k).is_ok() {
                            okeys.push(*k);
                        }
                    }
                    pdatastructs::verif::set_kick_budget(kb);
                    let pre = observe(&f, &universe);
                    let pre_o = observe(&o, &universe);
                    let res = guarded(|| Flt::union(&mut f, &o));
                    let post_o = observe(&o, &universe);
                    if let Some((what_sig, what)) = diff(&pre_o, &post_o, &universe) {
                        rep.violation(
                            format!("C12/cuckoo/union-modified-other/{}", what_sig),
                            format!("{}: union changed its `other` operand: {}", label, what),
                            witness(&ops, &f, json!({"change": what})),
                        );
                        break;
                    }
                    match res {
                        Err(msg) => {
                            rep.violation(format!("C12/panic/cuckoo-union/{}", panic_class(&msg)), format!("{}: union panicked: {}", label, msg), witness(&ops, &f, json!(null)));
                            break;
                        }
                        Ok(Ok(())) => stored.extend(okeys),
                        Ok(Err(())) => {
                            n_failed += 1;
                            rep.count("failed_unions_compared", 1);
                            let post = observe(&f, &universe);
                            let mut h = CaseHash::new(&label);
                            h.push(s as u64 ^ 0xFFFF);
                            ops.iter().for_each(|o| h.push_str(&format!("{:?}", o)));
                            rep.nontrivial(h.0);
                            if let Some((what_sig, what)) = diff(&pre, &post, &universe) {
                                rep.violation(
                                    format!("C12/cuckoo/failed-union/{}", what_sig),
                                    format!("{}: union returned Err but {}", label, what),
                                    witness(&ops, &f, json!({"change": what, "other_len": Flt::len(&o)})),
                                );
                                break;
                            }
                        }
                    }
                }
            }
        }
        pdatastructs::verif::set_kick_budget(None);
        rep.count("histories", 1);
        // continuation under the model (only informative when something failed)
        if n_failed > 0 {
            let run = cuckoo_model_run(&c, &cls, &ops, &[], kb);
            if let Some((step, sig, what)) = run.divergence {
                if run.failed.iter().any(|s| *s < step) {
                    // attribution: does the same history without the failed calls diverge too?
                    let without = cuckoo_model_run(&c, &cls, &ops, &run.failed, kb);
                    if without.divergence.is_none() {
                        rep.violation(
                            "C12/cuckoo/continuation-diverges-after-failed-call",
                            format!("{}: after a failed call the filter diverges from the model that ignores it at step {}: {} ({}); the same history without the failed calls agrees with the model", label, step, what, sig),
                            json!({"config": c, "kick_budget": kb, "history": ops.iter().map(cop_json).collect::<Vec<_>>(), "failed_steps": run.failed, "diverges_at": step}),
                        );
                    } else {
                        rep.count("model_divergence_not_attributable_to_failure", 1);
                    }
                }
            }
            rep.count("continuations_checked", 1);
        }
        if rep.want_sample() && n_failed > 0 && ops.len() <= 10 {
            rep.sample(json!({"config": label, "kick_budget": kb, "history": ops.iter().map(cop_json).collect::<Vec<_>>(), "failed_ops": n_failed}));
        }
    }
}

trait CuckooDelete {
    fn del(&mut self, k: u64) -> bool;
}
impl CuckooDelete for Cuckoo {
    fn del(&mut self, k: u64) -> bool {
        Flt::delete(self, k) == Some(true)
    }
}

// ---------------------------------------------------------------------------------------------
// quotient filter

#[derive(Clone, Debug)]
enum QOp {
    Insert(u64),
    Union(Vec<u64>),
}

fn qop_json(o: &QOp) -> Value {
    match o {
        QOp::Insert(k) => json!({"insert": k}),
        QOp::Union(ks) => json!({"union_with_inserts": ks}),
    }
}

fn qf_item(ctx: &Ctx, i: usize, rep: &mut Report) {
    let mut r = FastRng::new(ctx.sub_seed(&[2, i as u64]));
    let mut cfg = pick_qf(&mut r, 5);
    cfg.r = cfg.r.min(16);
    cfg.bh = match i % 3 {
        0 | 1 => CtlBuildHasher::identity(),
        _ => CtlBuildHasher::new(HMode::Mix, r.next()),
    };
    let label = cfg.label();
    rep.config(&label);
    let cap = cfg.slots();
    let usz = (cap * 2 + r.below(cap as u64 * 2) as usize).clamp(8, 200);
    let universe = qf_universe(&cfg, &mut r, usz);
    if universe.len() < 4 {
        return;
    }
    for _ in 0..6 {
        let mut f = cfg.make();
        let mut ops: Vec<QOp> = vec![];
        // shadow clones created at failure points, driven with the same continuation
        let mut shadows: Vec<(usize, Qf)> = vec![];
        let n_ops = cap + r.below(cap as u64 * 2 + 6) as usize;
        let mut n_failed = 0;
        'hist: for s in 0..n_ops {
            let op = if r.chance(0.12) || (s == 1 && r.chance(0.5)) {
                let m_other = 1 + r.below(cap as u64 + 1) as usize;
                QOp::Union((0..m_other).map(|_| *r.pick(&universe)).collect())
            } else {
                QOp::Insert(*r.pick(&universe))
            };
            ops.push(op.clone());
            rep.evaluations += 1;
            let witness = |ops: &[QOp], f: &Qf, extra: Value| {
                json!({"config": cfg, "history": ops.iter().map(qop_json).collect::<Vec<_>>(), "failing_step": ops.len() - 1, "state_after": f.dump(), "detail": extra})
            };
            let pre = observe(&f, &universe);
            let pre_clone = f.clone();
            let mut failed_now = false;
            match &op {
                QOp::Insert(k) => {
                    let res = guarded(|| Flt::insert(&mut f, *k));
                    for (_, sh) in shadows.iter_mut() {
                        let _ = guarded(|| Flt::insert(sh, *k));
                    }
                    match res {
                        Err(msg) => {
                            rep.violation(format!("C12/panic/qf-insert/{}", panic_class(&msg)), format!("{}: insert panicked: {}", label, msg), witness(&ops, &f, json!(null)));
                            break 'hist;
                        }
                        Ok(Ok(_)) => {}
                        Ok(Err(())) => {
                            failed_now = true;
                            rep.count("failed_inserts_compared", 1);
                            let post = observe(&f, &universe);
                            if let Some((what_sig, what)) = diff(&pre, &post, &universe) {
                                rep.violation(
                                    format!("C12/qf/failed-insert/{}", what_sig),
                                    format!("{}: insert({}) returned Err but {}", label, k, what),
                                    witness(&ops, &f, json!({"change": what})),
                                );
                                break 'hist;
                            }
                        }
                    }
                }
                QOp::Union(ks) => {
                    let mut o = cfg.make();
                    for k in ks {
                        let _ = Flt::insert(&mut o, *k);
                    }
                    let pre_o = observe(&o, &universe);
                    let res = guarded(|| Flt::union(&mut f, &o));
                    for (_, sh) in shadows.iter_mut() {
                        let _ = guarded(|| Flt::union(sh, &o));
                    }
                    let post_o = observe(&o, &universe);
                    if let Some((what_sig, what)) = diff(&pre_o, &post_o, &universe) {
                        rep.violation(
                            format!("C12/qf/union-modified-other/{}", what_sig),
                            format!("{}: union changed its `other` operand: {}", label, what),
                            witness(&ops, &f, json!({"change": what})),
                        );
                        break 'hist;
                    }
                    match res {
                        Err(msg) => {
                            rep.violation(format!("C12/panic/qf-union/{}", panic_class(&msg)), format!("{}: union panicked: {}", label, msg), witness(&ops, &f, json!(null)));
                            break 'hist;
                        }
                        Ok(Ok(())) => {}
                        Ok(Err(())) => {
                            failed_now = true;
                            rep.count("failed_unions_compared", 1);
                            let post = observe(&f, &universe);
                            if let Some((what_sig, what)) = diff(&pre, &post, &universe) {
                                rep.violation(
                                    format!("C12/qf/failed-union/{}", what_sig),
                                    format!("{}: union returned Err but {}", label, what),
                                    witness(&ops, &f, json!({"change": what, "other_len": Flt::len(&o)})),
                                );
                                break 'hist;
                            }
                        }
                    }
                }
            }
            // continuation: shadows (pre-state clones of earlier failures) must agree with f
            if !shadows.is_empty() {
                let cur = observe(&f, &universe);
                for (at, sh) in &shadows {
                    let so = observe(sh, &universe);
                    rep.count("continuation_steps_compared", 1);
                    if let Some((what_sig, what)) = diff(&so, &cur, &universe) {
                        rep.violation(
                            format!("C12/qf/continuation-diverges/{}", what_sig),
                            format!("{}: the filter that saw a failed call at step {} and its pre-failure clone diverge at step {}: {}", label, at, s, what),
                            witness(&ops, &f, json!({"failed_step": at, "change": what})),
                        );
                        break 'hist;
                    }
                }
            }
            if failed_now {
                n_failed += 1;
                let mut h = CaseHash::new(&label);
                h.push(s as u64);
                ops.iter().for_each(|o| h.push_str(&format!("{:?}", o)));
                rep.nontrivial(h.0);
                if shadows.len() < 3 {
                    shadows.push((s, pre_clone));
                }
            }
        }
        rep.count("histories", 1);
        if rep.want_sample() && n_failed > 0 && ops.len() <= 10 {
            rep.sample(json!({"config": label, "history": ops.iter().map(qop_json).collect::<Vec<_>>(), "failed_ops": n_failed}));
        }
    }
    // hash-distributed keys: cross-check with the C13 model is C13's business
    let _ = c13::RULE;
}

/// A cuckoo table with many buckets held at capacity: alternating deletes and inserts, so that
/// inserts succeed after anything between 0 and the full budget of evictions (or fail). Only len()
/// and a small universe are observed (cheap), over tens of thousands of operations.
fn cuckoo_churn_item(ctx: &Ctx, i: usize, rep: &mut Report) {
    let mut r = FastRng::new(ctx.sub_seed(&[4, i as u64]));
    let cfg = CuckooCfg { bucketsize: 2, n_buckets: *r.pick(&[128usize, 256, 512]), l: *r.pick(&[8usize, 16, 40]), bh: CtlBuildHasher::new(HMode::Mix, r.next()), rng: RngSpec::Fast(r.next()) };
    let label = cfg.label();
    rep.config(&label);
    let cap = cfg.slots();
    let steps = ctx.tier.pick(12_000, 60_000);
    let res = guarded(|| -> Option<(String, String)> {
        let mut f = cfg.make();
        let mut stored: Vec<u64> = vec![];
        let mut next_key = 1u64;
        let mut model_len = 0usize;
        for step in 0..steps {
            beat();
            // keep the table within a few elements of its capacity
            let do_insert = stored.len() + 3 < cap || r.chance(0.6);
            if do_insert {
                let k = next_key;
                next_key += 1;
                let before = Flt::len(&f);
                match Flt::insert(&mut f, k) {
                    Ok(_) => {
                        stored.push(k);
                        model_len += 1;
                    }
                    Err(()) => {
                        rep.count("failed_inserts_compared", 1);
                        if Flt::len(&f) != before {
                            return Some(("C12/cuckoo/failed-insert/len".into(), format!("step {}: insert returned Err but len() {} -> {}", step, before, Flt::len(&f))));
                        }
                        if Flt::query(&f, k) && l_wide(&cfg) {
                            return Some(("C12/cuckoo/failed-insert/query-became-true".into(), format!("step {}: insert({}) returned Err but the key is reported present", step, k)));
                        }
                    }
                }
            } else if !stored.is_empty() {
                let j = r.below(stored.len() as u64) as usize;
                let k = stored.swap_remove(j);
                if Flt::delete(&mut f, k) == Some(true) {
                    model_len -= 1;
                } else {
                    return Some(("C12/cuckoo/continuation-diverges-after-failed-call".into(), format!("step {}: delete of the stored key {} returned false", step, k)));
                }
            }
            if Flt::len(&f) != model_len {
                return Some(("C12/cuckoo/failed-insert/len".into(), format!("step {}: len() = {} but successful inserts - deletes = {}", step, Flt::len(&f), model_len)));
            }
            if step % 2000 == 0 {
                if let Some(k) = stored.iter().find(|k| !Flt::query(&f, **k)) {
                    return Some(("C12/cuckoo/continuation-diverges-after-failed-call".into(), format!("step {}: stored key {} is no longer reported present", step, k)));
                }
            }
        }
        None
    });
    rep.evaluations += steps as u64;
    match res {
        Ok(None) => {
            let mut h = CaseHash::new(&label);
            h.push(i as u64);
            rep.nontrivial(h.0);
        }
        Ok(Some((sig, what))) => rep.violation(sig, format!("{} (churn at capacity): {}", label, what), json!({"config": cfg, "steps": steps, "item": i})),
        Err(msg) => rep.violation(format!("C12/panic/cuckoo-insert/{}", panic_class(&msg)), format!("{}: panicked: {}", label, msg), json!({"config": cfg, "item": i})),
    }
}

/// fingerprints wide enough that a never-inserted key is not expected to collide
fn l_wide(cfg: &CuckooCfg) -> bool {
    cfg.l >= 40
}

/// big quotient filters: a union that overshoots the capacity by only a few elements (fails at one
/// of the last transferred fingerprints after thousands of successful transfers)
fn qf_large_item(ctx: &Ctx, i: usize, rep: &mut Report) {
    let mut r = FastRng::new(ctx.sub_seed(&[3, i as u64]));
    let q = *r.pick(&[10usize, 11, 12, 13]);
    let cfg = QfCfg { q, r: *r.pick(&[8usize, 20, 40]), bh: CtlBuildHasher::new(HMode::Mix, r.next()) };
    let label = cfg.label();
    rep.config(&label);
    let len = cfg.slots();
    let over = 1 + r.below((len as u64 / 1000).max(1) + 3) as usize; // overshoot by 1..len/1000+3
    let m_other = (len / 40 + r.below(len as u64 / 4) as usize).max(over + 1);
    let f_self = len + over - m_other;
    let keys_self: Vec<u64> = (0..f_self).map(|_| r.next()).collect();
    let keys_other: Vec<u64> = (0..m_other).map(|_| r.next()).collect();
    // observation universe: samples of both key sets plus never-inserted probes
    let mut universe: Vec<u64> = vec![];
    for _ in 0..150 {
        universe.push(*r.pick(&keys_self));
        universe.push(*r.pick(&keys_other));
        universe.push(r.next());
    }
    universe.extend(keys_other.iter().take(60));
    universe.extend(keys_other.iter().rev().take(60));
    let res = guarded(|| -> Option<(String, String)> {
        let mut a = cfg.make();
        let mut b = cfg.make();
        for k in &keys_self {
            let _ = Flt::insert(&mut a, *k);
        }
        for k in &keys_other {
            let _ = Flt::insert(&mut b, *k);
        }
        let pre = observe(&a, &universe);
        let pre_b = observe(&b, &universe);
        let res = Flt::union(&mut a, &b);
        let post_b = observe(&b, &universe);
        if let Some((s, w)) = diff(&pre_b, &post_b, &universe) {
            return Some((format!("C12/qf/union-modified-other/{}", s), w));
        }
        if res.is_err() {
            rep.count("failed_large_unions_compared", 1);
            let post = observe(&a, &universe);
            if let Some((s, w)) = diff(&pre, &post, &universe) {
                return Some((format!("C12/qf/failed-union/{}", s), format!("union of a filter with {} and one with {} elements (capacity {}) returned Err but {}", Flt::len(&a), Flt::len(&b), len, w)));
            }
            // a later insert must still work as before the failed call
            let before = Flt::len(&a);
            let probe = r.next();
            let ins = Flt::insert(&mut a, probe);
            if before < len && ins.is_err() {
                return Some(("C12/qf/continuation-diverges/insert-after-failed-union".into(), format!("after the failed union an insert into a filter with {} of {} slots used failed", before, len)));
            }
        } else {
            rep.count("large_unions_that_fitted(class collisions)", 1);
        }
        None
    });
    rep.evaluations += (f_self + m_other) as u64;
    match res {
        Ok(None) => {
            let mut h = CaseHash::new(&label);
            h.push(i as u64);
            rep.nontrivial(h.0);
        }
        Ok(Some((sig, what))) => rep.violation(sig, format!("{}: {}", label, what), json!({"config": cfg, "self_elements": f_self, "other_elements": m_other, "capacity": len, "overshoot": over, "item": i})),
        Err(msg) => rep.violation(format!("C12/panic/qf-union/{}", panic_class(&msg)), format!("{}: panicked: {}", label, msg), json!({"config": cfg, "self_elements": f_self, "other_elements": m_other, "item": i})),
    }
}

pub fn run(ctx: &Ctx) -> Report {
    let n = match (ctx.tier, ctx.is_dbg()) {
        (Tier::Quick, false) => 16_000,
        (Tier::Quick, true) => 1200,
        (Tier::Thorough, false) => 300_000,
        (Tier::Thorough, true) => 12_000,
    };
    let mut rep = par_run(ctx, n, |i, rep| match i % 4 {
        _ if i % 200 == 199 => qf_large_item(ctx, i, rep),
        _ if i % 400 == 7 && !ctx.is_dbg() => cuckoo_churn_item(ctx, i, rep),
        0 => cuckoo_item(ctx, i, false, rep),
        1 | 2 => cuckoo_item(ctx, i, true, rep),
        _ => qf_item(ctx, i, rep),
    });
    rep.require_events(&[
        "CuckooInsertFailed",
        "CuckooRollback",
        "CuckooUnionFailFirst",
        "CuckooUnionFailMiddle",
        "CuckooUnionFailLast",
        "QfFull",
        "QfUnionFailFirst",
        "QfUnionFailMiddle",
        "QfUnionFailLast",
    ]);
    for c in ["failed_inserts_compared", "failed_unions_compared"] {
        if rep.counters.get(c).copied().unwrap_or(0) == 0 {
            rep.inconclusive.push(format!("no {} observed", c));
        }
    }
    rep
}
