//! C05 — reservoir sampling is uniform over stream positions.
use crate::infra::rngs::{CtlRng, FastRng};
use crate::infra::*;
use pdatastructs::reservoirsampling::ReservoirSampling;
use serde_json::json;
use std::sync::Mutex;

pub const RULE: &str = "per (k, n) cell T independent RNG seeds; the stream is the position ids 0..n; inclusion counts per position (n <= 600) or per regional bin (first k, [k,2k), [2k,4k), position 4k, geometric bins, last k, last item). n <= 4k+1: every cell against exactly k/n (|z| > 5 flags; confirmation on fresh seeds with 8x trials, |z| > 6, same sign). n > 4k+1: |freq/(k/n) - 1| must stay within max(analytic allowance C/k*(1+ln(n/4k)), bias of the harness's own implementation of the documented algorithm on independent seeds) plus 5-6 sigma. selected cells are repeated on a sampler reused after clear() and with the stream delivered through extend() in random batches (with and without exact size hints) interleaved with add(); k = 1024 and 4096 at n = 4k+1, 8k, 32k with 16 000 (64 000) trials (relative resolution ~0.1 % per region against an allowance of 0.04-0.3 %); additionally k=1 with n = 4x10^7 (n/k > 2^25) and a dispersion (chi-square) test over the first k positions for k = 3*2^19, n = 32k; non-trivial = one (k, n, seed) trial with n > k; distinct = (cell, trial) pairs";
pub const ASSUMPTIONS: &[&str] = &[
    "binomial variance is used for bins (conservative: inclusions of different positions are negatively correlated)",
    "the reference sampler is the documented algorithm: Algorithm R up to 4k items, then geometric gaps with p = k/(i+1) frozen per gap",
    "allowance constant C calibrated once on the repaired sampler (DESIGN C05)",
];

/// analytic allowance constant (relative bias <= C/k * (1 + ln(n/4k))), see DESIGN §4 C05
pub const C_ALLOW: f64 = 1.0;

const KS: [usize; 8] = [1, 2, 3, 5, 8, 16, 64, 100];

/// big reservoirs: the allowance C/k is tiny there, so a small k-independent excess (a gap drawn
/// from a slightly stale probability, say) stands out - given enough trials to resolve 0.1 %
const BIG_KS: [usize; 2] = [1024, 4096];

fn ns_for(k: usize, tier: Tier) -> Vec<usize> {
    if k >= 1024 {
        return vec![4 * k + 1, 8 * k, 32 * k];
    }
    let mut v = vec![k + 1, k + 2, 2 * k, 4 * k - 1, 4 * k, 4 * k + 1, 4 * k + 2, 5 * k, 6 * k, 10 * k, 50 * k];
    if k == 1 {
        // n/k beyond 2^25: gap arithmetic carried out in too little precision shows only here
        v.push(40_000_000);
    }
    if k >= 64 {
        v.push(10_000);
        if tier == Tier::Thorough {
            v.push(100_000);
        }
    }
    v.retain(|n| *n > k);
    v.sort_unstable();
    v.dedup();
    v
}

/// bin boundaries (start positions, last = n) and a region name per bin
fn bins(k: usize, n: usize) -> (Vec<usize>, Vec<&'static str>) {
    if n <= 600 {
        let b: Vec<usize> = (0..=n).collect();
        let names = (0..n)
            .map(|p| {
                if p < k {
                    "first-k"
                } else if p == 4 * k {
                    "switch-item"
                } else if p + 1 == n {
                    "last-item"
                } else if p < 4 * k {
                    "reservoir-phase"
                } else if p + k >= n {
                    "recent"
                } else {
                    "gap-phase"
                }
            })
            .collect();
        return (b, names);
    }
    let mut b: Vec<usize> = vec![0, k, 2 * k, 4 * k, 4 * k + 1];
    let mut x = (5 * k + 1) as f64;
    while (x as usize) < n.saturating_sub(k) {
        b.push(x as usize);
        x *= 1.5;
    }
    b.push(n - k);
    b.push(n - 1);
    b.push(n);
    b.retain(|v| *v <= n);
    b.sort_unstable();
    b.dedup();
    let names = (0..b.len() - 1)
        .map(|i| {
            let (s, e) = (b[i], b[i + 1]);
            if e <= k {
                "first-k"
            } else if s == 4 * k && e == 4 * k + 1 {
                "switch-item"
            } else if s == n - 1 {
                "last-item"
            } else if e <= 4 * k {
                "reservoir-phase"
            } else if s >= n - k {
                "recent"
            } else {
                "gap-phase"
            }
        })
        .collect();
    (b, names)
}

/// harness reference: the documented algorithm
fn reference_sample(k: usize, n: usize, r: &mut FastRng, out: &mut Vec<u32>) {
    out.clear();
    let t = 4 * k;
    let mut i = 0usize;
    while i < n && i < k {
        out.push(i as u32);
        i += 1;
    }
    while i < n && i < t {
        let j = r.below(i as u64 + 1) as usize;
        if j < k {
            out[j] = i as u32;
        }
        i += 1;
    }
    while i < n {
        // gap before the next accepted item, p frozen at the current position
        let p = k as f64 / (i + 1) as f64;
        let u = 1.0 - r.f64(); // (0, 1]
        let g = (u.ln() / (1.0 - p).ln()).floor();
        let next = i as f64 + g;
        if next >= n as f64 {
            break;
        }
        i = next as usize;
        let j = r.below(k as u64) as usize;
        out[j] = i as u32;
        i += 1;
    }
}

#[derive(Clone, Copy, PartialEq, Debug)]
enum RngKind {
    Fast,
    ChaCha,
    /// FastRng; the sampler first sees 5k+3 other items and is cleared (a cleared sampler must
    /// sample the next stream like a fresh one)
    FastAfterClear,
    /// FastRng; the stream arrives through `extend` in batches of random length (1..8, up to 2k,
    /// some through an adaptor without an exact size hint) interleaved with single `add`s
    FastExtendBatches,
}

struct CellCounts {
    crate_counts: Vec<u64>,
    ref_counts: Vec<u64>,
    hooks: Report,
}

fn run_trials(ctx: &Ctx, k: usize, n: usize, trials: usize, stage: u64, rk: RngKind, bounds: &[usize]) -> CellCounts {
    let nb = bounds.len() - 1;
    let chunks = 32.min(trials).max(1);
    let per = trials.div_ceil(chunks);
    let acc: Mutex<(Vec<u64>, Vec<u64>)> = Mutex::new((vec![0; nb], vec![0; nb]));
    // position -> bin lookup
    let mut bin_of = vec![0u32; n];
    for b in 0..nb {
        for p in bounds[b]..bounds[b + 1] {
            bin_of[p] = b as u32;
        }
    }
    let hooks = par_run(ctx, chunks, |ci, _| {
        let mut cc = vec![0u64; nb];
        let mut rc = vec![0u64; nb];
        let mut buf: Vec<u32> = Vec::with_capacity(k);
        for t in (ci * per)..((ci + 1) * per).min(trials) {
            let seed = ctx.sub_seed(&[stage, k as u64, n as u64, t as u64, rk as u64]);
            let rng = match rk {
                RngKind::Fast | RngKind::FastAfterClear | RngKind::FastExtendBatches => CtlRng::fast(seed),
                RngKind::ChaCha => CtlRng::chacha(seed),
            };
            let mut s: ReservoirSampling<u32, CtlRng> = ReservoirSampling::new(k, rng);
            if rk == RngKind::FastAfterClear {
                beat();
                for p in 0..(5 * k + 3) as u32 {
                    s.add(u32::MAX - p);
                }
                s.clear();
            }
            if rk == RngKind::FastExtendBatches {
                let mut br = FastRng::new(seed ^ 0xBA7C_4ED);
                let mut p = 0u32;
                while (p as usize) < n {
                    beat();
                    let x = br.below(10);
                    if x >= 8 {
                        s.add(p);
                        p += 1;
                        continue;
                    }
                    let len = if x < 5 { 1 + br.below(8) } else { 1 + br.below(2 * k as u64 + 1) } as u32;
                    let e = p.saturating_add(len).min(n as u32);
                    if br.chance(0.3) {
                        s.extend((p..e).filter(|v| *v != u32::MAX)); // no exact size hint
                    } else {
                        s.extend(p..e);
                    }
                    p = e;
                }
            } else {
                for p in 0..n as u32 {
                    if p & 0x3ff == 0 {
                        beat();
                    }
                    s.add(p);
                }
            }
            for p in s.reservoir() {
                cc[bin_of[*p as usize] as usize] += 1;
            }
            let mut r = FastRng::new(seed ^ 0x5EED_0F_7E_F);
            reference_sample(k, n, &mut r, &mut buf);
            for p in &buf {
                rc[bin_of[*p as usize] as usize] += 1;
            }
        }
        let mut g = acc.lock().unwrap();
        for i in 0..nb {
            g.0[i] += cc[i];
            g.1[i] += rc[i];
        }
    });
    let (c, r) = acc.into_inner().unwrap();
    CellCounts { crate_counts: c, ref_counts: r, hooks }
}

#[derive(Clone, Debug)]
struct Flag {
    bin: usize,
    rel_bias: f64,
    z: f64,
    allowed: f64,
}

/// evaluate bins; `zmax` = 5 (stage 1) or 6 (stage 2)
const REGIONS: [&str; 6] = ["first-k", "reservoir-phase", "switch-item", "gap-phase", "recent", "last-item"];

/// bins followed by one aggregated pseudo-bin per region (index nb + region index)
fn evaluate(k: usize, n: usize, trials: usize, bounds: &[usize], names: &[&'static str], counts: &CellCounts, zmax: f64, only: Option<&[usize]>, worst: &mut [f64; 3]) -> Vec<Flag> {
    let p0 = k as f64 / n as f64;
    let exact = n <= 4 * k + 1;
    let mut flags = vec![];
    let nb = bounds.len() - 1;
    for b in 0..nb + REGIONS.len() {
        if let Some(o) = only {
            if !o.contains(&b) {
                continue;
            }
        }
        let (m, obs, refobs) = if b < nb {
            ((bounds[b + 1] - bounds[b]) as f64, counts.crate_counts[b] as f64, counts.ref_counts[b] as f64)
        } else {
            let reg = REGIONS[b - nb];
            let mut m = 0.0;
            let mut o = 0.0;
            let mut ro = 0.0;
            for i in 0..nb {
                if names[i] == reg {
                    m += (bounds[i + 1] - bounds[i]) as f64;
                    o += counts.crate_counts[i] as f64;
                    ro += counts.ref_counts[i] as f64;
                }
            }
            if m == 0.0 {
                continue;
            }
            (m, o, ro)
        };
        let exp = trials as f64 * m * p0;
        let var = trials as f64 * m * p0 * (1.0 - p0);
        let sd = var.sqrt().max(1e-9);
        let z = (obs - exp) / sd;
        let rel = obs / exp - 1.0;
        if exact {
            worst[0] = worst[0].max(z.abs());
            if z.abs() > zmax {
                flags.push(Flag { bin: b, rel_bias: rel, z, allowed: 0.0 });
            }
        } else {
            // allowance: analytic or the reference's own bias, whichever is larger
            let analytic = (C_ALLOW / k as f64 * (1.0 + (n as f64 / (4.0 * k as f64)).ln())).min(1.0);
            let refrel = refobs / exp - 1.0;
            // reference measured with the same number of trials: its own noise adds one sigma-unit
            let allowed = analytic.max(refrel.abs());
            let excess = (obs - exp).abs() - allowed * exp;
            let zz = excess / (sd * 2f64.sqrt());
            worst[1] = worst[1].max(rel.abs() * k as f64 / (1.0 + (n as f64 / (4.0 * k as f64)).ln()));
            worst[2] = worst[2].max(zz);
            if zz > zmax {
                flags.push(Flag { bin: b, rel_bias: rel, z, allowed });
            }
        }
    }
    flags
}

/// Dispersion test for a big reservoir: the first k stream positions are exchangeable, so their
/// inclusion counts over T trials must be binomially dispersed around their common mean. A slot
/// choice that is not uniform (visible only when k approaches the resolution of the random source)
/// inflates the dispersion. Returns (z, mean count).
fn dispersion(ctx: &Ctx, k: usize, n: usize, trials: usize, stage: u64) -> (f64, f64, Report) {
    let counts: Mutex<Vec<u16>> = Mutex::new(vec![0u16; k]);
    let hooks = par_run(ctx, trials, |t, _| {
        let seed = ctx.sub_seed(&[0xD15, stage, k as u64, t as u64]);
        let mut s: ReservoirSampling<u32, CtlRng> = ReservoirSampling::new(k, CtlRng::fast(seed));
        for p in 0..n as u32 {
            s.add(p);
            if p & 0x3ff == 0 {
                beat();
            }
        }
        let mut g = counts.lock().unwrap();
        for p in s.reservoir() {
            if (*p as usize) < k {
                g[*p as usize] += 1;
            }
        }
    });
    let c = counts.into_inner().unwrap();
    let t = trials as f64;
    let mean = c.iter().map(|x| *x as f64).sum::<f64>() / k as f64;
    let var_h0 = mean * (1.0 - mean / t);
    let chi2: f64 = c.iter().map(|x| (*x as f64 - mean).powi(2)).sum::<f64>() / var_h0.max(1e-12);
    let dof = (k - 1) as f64;
    ((chi2 - dof) / (2.0 * dof).sqrt(), mean, hooks)
}

pub fn run(ctx: &Ctx) -> Report {
    let mut rep = Report::new();
    let budget: f64 = ctx.tier.pick(1.6e7, 2e8); // adds per cell
    let mut cells_json = vec![];
    let mut worst = [0f64; 3];
    for &k in KS.iter().chain(BIG_KS.iter()) {
        for n in ns_for(k, ctx.tier) {
            for rk in [RngKind::Fast, RngKind::ChaCha, RngKind::FastAfterClear, RngKind::FastExtendBatches] {
                if rk == RngKind::FastExtendBatches && !((k == 8 || k == 3 || k == 64) && n <= 100 * k && n > 2 * k) {
                    continue;
                }
                if rk == RngKind::ChaCha && !(k == 8 || (k == 2 && n <= 10)) {
                    continue;
                }
                if rk == RngKind::FastAfterClear && !((k == 8 || k == 3) && n <= 10 * k) {
                    continue;
                }
                let label = format!("k={}/n={}{}", k, n, match rk { RngKind::ChaCha => "/chacha", RngKind::FastAfterClear => "/after-clear", RngKind::FastExtendBatches => "/extend-batches", RngKind::Fast => "" });
                if let Some(o) = &ctx.only {
                    if !label.contains(o.as_str()) {
                        continue;
                    }
                }
                let b = if rk != RngKind::Fast { budget / 8.0 } else { budget };
                let trials = if k >= 1024 { ctx.tier.pick(16_000, 64_000) } else if n >= 10_000_000 { ctx.tier.pick(8, 40) } else { ((b / n as f64) as usize).clamp(2000, 4_000_000) };
                let (bounds, names) = bins(k, n);
                let mut counts = run_trials(ctx, k, n, trials, 1, rk, &bounds);
                rep.merge(std::mem::take(&mut counts.hooks));
                rep.evaluations += (trials * n) as u64;
                rep.count("trials", trials as u64);
                for t in 0..trials.min(2000) {
                    let mut h = CaseHash::new(&label);
                    h.push(t as u64);
                    rep.nontrivial(h.0);
                }
                rep.config(format!("{} trials={} bins={}", label, trials, bounds.len() - 1));
                let mut w = [0f64; 3];
                let flags = evaluate(k, n, trials, &bounds, &names, &counts, 5.0, None, &mut w);
                for i in 0..3 {
                    worst[i] = worst[i].max(w[i]);
                }
                let mut cell = json!({"cell": label, "trials": trials, "bins": bounds.len() - 1, "regime": if n <= 4 * k + 1 { "exact" } else { "gap" }, "worst_abs_z_exact": w[0], "worst_rel_bias_times_k_over_log": w[1], "stage1_flags": flags.len()});
                if !flags.is_empty() {
                    let only: Vec<usize> = flags.iter().map(|f| f.bin).collect();
                    let t2 = trials * 8;
                    let c2 = run_trials(ctx, k, n, t2, 2, rk, &bounds);
                    rep.evaluations += (t2 * n) as u64;
                    rep.count("stage2_reruns", 1);
                    let mut w2 = [0f64; 3];
                    let f2 = evaluate(k, n, t2, &bounds, &names, &c2, 6.0, Some(&only), &mut w2);
                    cell["stage2_flags"] = json!(f2.len());
                    // report at most one violation per (cell, region)
                    let mut seen: Vec<&str> = vec![];
                    for f in &f2 {
                        let Some(f1) = flags.iter().find(|x| x.bin == f.bin && x.rel_bias.signum() == f.rel_bias.signum()) else {
                            continue;
                        };
                        let nb = bounds.len() - 1;
                        let (region, pos_lo, pos_hi) = if f.bin < nb { (names[f.bin], bounds[f.bin], bounds[f.bin + 1]) } else { (REGIONS[f.bin - nb], 0, n) };
                        if seen.contains(&region) {
                            continue;
                        }
                        seen.push(region);
                        let p0 = k as f64 / n as f64;
                        rep.violation_mag(
                            format!("C05/{}/{}/{}", if n <= 4 * k + 1 { "exact" } else { "gap" }, label, region),
                            format!(
                                "ReservoirSampling k={} after n={} adds: stream positions [{}, {}) ({}) are in the reservoir with frequency {:.5} x (k/n = {:.5}) (stage 1: {:.4} x over {} seeds, z = {:.1}; stage 2: {:.4} x over {} fresh seeds, z = {:.1}; allowance {:.4})",
                                k, n, pos_lo, pos_hi, region, 1.0 + f.rel_bias, p0, 1.0 + f1.rel_bias, trials, f1.z, 1.0 + f.rel_bias, t2, f.z, f.allowed
                            ),
                            json!({"k": k, "n": n, "positions": [pos_lo, pos_hi], "aggregated_region": f.bin >= nb, "region": region, "expected_probability": p0, "stage1": {"trials": trials, "ratio": 1.0 + f1.rel_bias, "z": f1.z}, "stage2": {"trials": t2, "ratio": 1.0 + f.rel_bias, "z": f.z}, "allowance": f.allowed, "rng": format!("{:?}", rk)}),
                            f.rel_bias.abs(),
                        );
                    }
                }
                if rep.want_sample() && (n == 4 * k + 1 || n == 50 * k) && k == 8 {
                    let p0 = k as f64 / n as f64;
                    let ratios: Vec<f64> = (0..bounds.len() - 1).map(|b| counts.crate_counts[b] as f64 / (trials as f64 * (bounds[b + 1] - bounds[b]) as f64 * p0)).collect();
                    rep.sample(json!({"cell": label, "trials": trials, "bin_starts": bounds.iter().take(40).collect::<Vec<_>>(), "frequency_over_k_n": ratios.iter().take(40).collect::<Vec<_>>()}));
                }
                cells_json.push(cell);
            }
        }
    }
    // big reservoirs: dispersion of the first k positions
    if ctx.only.is_none() || ctx.only.as_deref() == Some("dispersion") {
        let big: Vec<usize> = if ctx.tier == Tier::Thorough { vec![3 << 19, 1_000_003] } else { vec![3 << 19] };
        for k in big {
            let n = 32 * k;
            let trials = ctx.tier.pick(16, 48);
            let (z, mean, hooks) = dispersion(ctx, k, n, trials, 1);
            rep.merge(hooks);
            rep.evaluations += (trials * n) as u64;
            rep.max("dispersion_z_first_k_positions(big k)", z);
            rep.config(format!("dispersion k={} n={} trials={}", k, n, trials));
            let mut cell = json!({"cell": format!("dispersion/k={}/n={}", k, n), "trials": trials, "mean_count_per_position": mean, "expected": trials as f64 * k as f64 / n as f64, "z": z});
            if z > 6.0 {
                let (z2, mean2, _) = dispersion(ctx, k, n, trials * 2, 2);
                rep.evaluations += (2 * trials * n) as u64;
                cell["stage2_z"] = json!(z2);
                if z2 > 6.0 {
                    rep.violation_mag(
                        format!("C05/gap/k={}/n={}/first-k-dispersion", k, n),
                        format!("ReservoirSampling k={} after n={} adds: the inclusion counts of the first k stream positions (exchangeable, expected {:.3} per position over {} trials) are over-dispersed: chi-square z = {:.1} (stage 1), {:.1} (stage 2, {} fresh trials, mean {:.3}); some of these positions are systematically favoured", k, n, mean, trials, z, z2, trials * 2, mean2),
                        json!({"k": k, "n": n, "stage1": {"trials": trials, "z": z}, "stage2": {"trials": trials * 2, "z": z2}}),
                        z2,
                    );
                }
            }
            cells_json.push(cell);
        }
    }
    rep.max("worst_abs_z_in_exact_cells", worst[0]);
    rep.max("worst_rel_bias_times_k_over_(1+ln(n/4k))_in_gap_cells", worst[1]);
    rep.max("worst_excess_z_in_gap_cells", worst[2]);
    rep.extra.insert("cells".into(), json!(cells_json));
    rep.require_events(&["ResFill", "ResReplace", "ResNoReplace", "ResGapAccept", "ResGapSkip"]);
    rep
}
