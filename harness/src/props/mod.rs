//! Property monitors, one module per property.
pub mod c01;
pub mod c02;
pub mod c03;
pub mod c04;
pub mod c05;
pub mod c06;
pub mod c07;
pub mod c08;
pub mod c09;
pub mod c10;
pub mod c11;
pub mod c12;
pub mod c13;
pub mod c14;
pub mod c15;
pub mod c16;
pub mod c17;
pub mod c18;
pub mod c19;
pub mod c20;
pub mod common;

use crate::infra::{Ctx, Report};

pub struct Prop {
    pub id: &'static str,
    pub run: fn(&Ctx) -> Report,
    /// has clauses that must (also) be observed with debug assertions on
    pub dbg_part: bool,
    pub rule: &'static str,
    pub assumptions: &'static [&'static str],
}

pub const PROPS: &[Prop] = &[
    Prop { id: "C01", run: c01::run, dbg_part: true, rule: c01::RULE, assumptions: c01::ASSUMPTIONS },
    Prop { id: "C02", run: c02::run, dbg_part: true, rule: c02::RULE, assumptions: c02::ASSUMPTIONS },
    Prop { id: "C03", run: c03::run, dbg_part: true, rule: c03::RULE, assumptions: c03::ASSUMPTIONS },
    Prop { id: "C04", run: c04::run, dbg_part: false, rule: c04::RULE, assumptions: c04::ASSUMPTIONS },
    Prop { id: "C05", run: c05::run, dbg_part: false, rule: c05::RULE, assumptions: c05::ASSUMPTIONS },
    Prop { id: "C06", run: c06::run, dbg_part: true, rule: c06::RULE, assumptions: c06::ASSUMPTIONS },
    Prop { id: "C07", run: c07::run, dbg_part: true, rule: c07::RULE, assumptions: c07::ASSUMPTIONS },
    Prop { id: "C08", run: c08::run, dbg_part: false, rule: c08::RULE, assumptions: c08::ASSUMPTIONS },
    Prop { id: "C09", run: c09::run, dbg_part: true, rule: c09::RULE, assumptions: c09::ASSUMPTIONS },
    Prop { id: "C10", run: c10::run, dbg_part: true, rule: c10::RULE, assumptions: c10::ASSUMPTIONS },
    Prop { id: "C11", run: c11::run, dbg_part: false, rule: c11::RULE, assumptions: c11::ASSUMPTIONS },
    Prop { id: "C12", run: c12::run, dbg_part: true, rule: c12::RULE, assumptions: c12::ASSUMPTIONS },
    Prop { id: "C13", run: c13::run, dbg_part: true, rule: c13::RULE, assumptions: c13::ASSUMPTIONS },
    Prop { id: "C14", run: c14::run, dbg_part: true, rule: c14::RULE, assumptions: c14::ASSUMPTIONS },
    Prop { id: "C15", run: c15::run, dbg_part: false, rule: c15::RULE, assumptions: c15::ASSUMPTIONS },
    Prop { id: "C16", run: c16::run, dbg_part: false, rule: c16::RULE, assumptions: c16::ASSUMPTIONS },
    Prop { id: "C17", run: c17::run, dbg_part: true, rule: c17::RULE, assumptions: c17::ASSUMPTIONS },
    Prop { id: "C18", run: c18::run, dbg_part: true, rule: c18::RULE, assumptions: c18::ASSUMPTIONS },
    Prop { id: "C19", run: c19::run, dbg_part: true, rule: c19::RULE, assumptions: c19::ASSUMPTIONS },
    Prop { id: "C20", run: c20::run, dbg_part: true, rule: c20::RULE, assumptions: c20::ASSUMPTIONS },
];

pub fn lookup(id: &str) -> Option<&'static Prop> {
    PROPS.iter().find(|p| p.id == id)
}

/// Re-run the property at the recorded tier/seed and report whether the recorded signature
/// reappears. Exit 1 if it does (still violated), 0 if not.
pub fn replay(path: &str) -> i32 {
    let s = match std::fs::read_to_string(path) {
        Ok(s) => s,
        Err(e) => {
            eprintln!("cannot read {}: {}", path, e);
            return 3;
        }
    };
    let v: serde_json::Value = match serde_json::from_str(&s) {
        Ok(v) => v,
        Err(e) => {
            eprintln!("bad replay file: {}", e);
            return 3;
        }
    };
    let id = v["property"].as_str().unwrap_or("").to_string();
    let sig = v["signature"].as_str().unwrap_or("").to_string();
    let tier = if v["tier"].as_str() == Some("thorough") {
        crate::infra::Tier::Thorough
    } else {
        crate::infra::Tier::Quick
    };
    let seed = v["seed"].as_u64().unwrap_or(1);
    let Some(p) = lookup(&id) else {
        eprintln!("unknown property {}", id);
        return 3;
    };
    let ctx = Ctx {
        id: id.clone(),
        tier,
        seed,
        profile: *crate::PROFILE,
        threads: std::thread::available_parallelism().map(|n| n.get()).unwrap_or(8),
        // cell-structured statistical properties: restrict the re-run to the cell named in the signature
        only: {
            let parts: Vec<&str> = sig.split('/').collect();
            if id == "C08" && parts.len() >= 4 {
                Some(parts[1..].join("/"))
            } else if id == "C07" && parts.len() >= 4 && parts[1] == "rate" {
                Some(parts[2..].join("/"))
            } else if id == "C05" && parts.len() >= 5 && parts[parts.len() - 1] != "first-k-dispersion" {
                Some(parts[2..parts.len() - 1].join("/"))
            } else if id == "C05" && sig.ends_with("first-k-dispersion") {
                Some("dispersion".to_string())
            } else {
                None
            }
        },
        // witnesses produced inside the property's main loop carry the work-item index
        only_item: v["witness"]["item"].as_u64().map(|x| x as usize),
    };
    println!("replaying {} tier={} seed={} signature={}", id, tier.name(), seed, sig);
    if sig.ends_with("/call-does-not-return") {
        // a hang is reproduced in a child process so that the liveness monitor can end it
        let exe = std::env::current_exe().unwrap();
        let mut cmd = std::process::Command::new(exe);
        cmd.arg("check").arg(&id).arg("--tier").arg(tier.name()).arg("--seed").arg(format!("{}", seed));
        if let Some(it) = ctx.only_item {
            cmd.arg("--item").arg(format!("{}", it));
        }
        let st = cmd.status().map(|s| s.code().unwrap_or(3)).unwrap_or(3);
        if st == 1 {
            println!("REPRODUCED property={} signature={}", id, sig);
            return 1;
        }
        println!("NOT-REPRODUCED property={} signature={} (child exit {})", id, sig, st);
        return 0;
    }
    println!("recorded witness: {}", serde_json::to_string(&v["witness"]).unwrap_or_default());
    let mut rep = (p.run)(&ctx);
    crate::infra::drain_escaped_panics(&ctx.id, &mut rep);
    if p.dbg_part && !ctx.is_dbg() {
        for prof in crate::SUB_PROFILES {
            // a witness tagged with a profile only needs that profile's sub-run
            if let Some(w) = v["witness"]["profile"].as_str() {
                if w != prof {
                    continue;
                }
            }
            if let Ok(r) = crate::run_sub(&ctx, prof) {
                rep.merge(r);
            }
        }
    }
    if let Some(it) = ctx.only_item {
        println!("(re-ran only work item #{} of the main loop)", it);
    }
    let hit: Vec<_> = rep.violations.iter().filter(|x| x.signature == sig).collect();
    if let Some(h) = hit.first() {
        println!("REPRODUCED property={} signature={}", id, sig);
        println!("  what: {}", h.what);
        1
    } else {
        println!("NOT-REPRODUCED property={} signature={} (other violations: {})", id, sig, rep.violations.len());
        0
    }
}
